"""Harness-side shims: remove the engine's sources of nondeterminism.

None of these changes engine logic (DESIGN 1.1):
  * virtual clock for the modules that read time (not cloudsync.runnable)
  * deterministic object ids for id-style MockProvider objects
  * deterministic (salted-serial) hash for SyncEntry, so that iteration order
    of entry sets is a function of the case, not of memory addresses
  * per-process scratch TMPDIR
  * logging off (log arguments are still evaluated by the engine)
"""
import os
import sys
import types
import atexit
import shutil
import logging
import tempfile
import itertools
import warnings

REPO = os.environ.get("VERIF_REPO", "/repo")
if sys.path[0] != REPO:
    sys.path.insert(0, REPO)
warnings.filterwarnings("ignore")

import cloudsync  # noqa: E402

if not os.path.realpath(cloudsync.__file__).startswith(os.path.realpath(REPO) + os.sep):
    sys.stderr.write("HARNESS-ERROR: cloudsync imported from %s, not %s\n" % (cloudsync.__file__, REPO))
    sys.exit(2)

import cloudsync.sync.state as st  # noqa: E402
import cloudsync.sync.manager as mg  # noqa: E402
import cloudsync.providers.mock as mk  # noqa: E402
import cloudsync.event as evm  # noqa: E402
import cloudsync.smartsync as ss  # noqa: E402
import time as _real_time  # noqa: E402

logging.disable(logging.CRITICAL)


class VClock:
    """Strictly increasing virtual wall clock."""
    START = 1_000_000.0
    TICK = 0.0001

    def __init__(self):
        self.t = self.START
        self.frozen = False

    def time(self):
        if not self.frozen:
            self.t += self.TICK
        return self.t

    def monotonic(self):
        return self.time()

    def sleep(self, s):
        if not self.frozen:
            self.t += max(s or 0, 0)


CLOCK = VClock()
_fake_time = types.SimpleNamespace(time=CLOCK.time, sleep=CLOCK.sleep, monotonic=CLOCK.monotonic,
                                   strftime=_real_time.strftime, gmtime=_real_time.gmtime,
                                   localtime=_real_time.localtime)
for _m in (st, mg, mk, evm, ss):
    _m.time = _fake_time

# ---- deterministic oids for id-style mock objects
_oid_counter = itertools.count(1)
_orig_fso_init = mk.MockFSObject.__init__


def _fso_init(self, path, object_type, oid_is_path, hash_func, contents=None, mtime=None):
    _orig_fso_init(self, path, object_type, oid_is_path, hash_func, contents, mtime)
    if not oid_is_path:
        self.oid = "o%d" % next(_oid_counter)


mk.MockFSObject.__init__ = _fso_init

# ---- deterministic hash for SyncEntry
_ent_counter = itertools.count(1)
_SALT = [0]
_orig_ent_init = st.SyncEntry.__init__


def _ent_init(self, *a, **kw):
    object.__setattr__(self, "_serial", next(_ent_counter))
    _orig_ent_init(self, *a, **kw)


def _ent_hash(self):
    s = self._serial
    # salted permutation of small serials: order of set iteration becomes a generated parameter
    return ((s * 2654435761) ^ (_SALT[0] * 40503)) & 0xFFFFFFF


st.SyncEntry.__init__ = _ent_init
st.SyncEntry.__hash__ = _ent_hash
st.SyncEntry.__eq__ = lambda self, o: self is o
st.SyncEntry.__ne__ = lambda self, o: self is not o

# ---- scratch dir
SCRATCH = None


def scratch():
    global SCRATCH
    if SCRATCH is None or not os.path.isdir(SCRATCH):
        base = os.environ.get("VERIF_SCRATCH") or "/tmp"
        SCRATCH = _real_mkdtemp(prefix="vf-%d-" % os.getpid(), dir=base)
        tempfile.tempdir = SCRATCH
        os.environ["TMPDIR"] = SCRATCH
        atexit.register(cleanup_scratch)
    return SCRATCH


_real_mkdtemp = tempfile.mkdtemp


def cleanup_scratch():
    global SCRATCH
    if SCRATCH and os.path.isdir(SCRATCH):
        shutil.rmtree(SCRATCH, ignore_errors=True)
    SCRATCH = None
    tempfile.tempdir = None


def reset(salt=0):
    """Reset all per-case global state."""
    global _oid_counter, _ent_counter
    _oid_counter = itertools.count(1)
    _ent_counter = itertools.count(1)
    _SALT[0] = salt
    CLOCK.t = VClock.START
    CLOCK.frozen = False
    evm.EventManager._provider_guard.clear()
    scratch()
