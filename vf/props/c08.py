"""C08  Persisted sync state equals in-memory state and round-trips unchanged.

main  : engine histories (envelope + conflict gadgets); after EVERY event-intake and sync step the rows of the
        sync's tag are decoded and compared with the live entries; a second SyncState is loaded from a copy of the
        storage and its lookups / pending set are compared with the live state.
codec : SyncEntry.serialize -> storage row -> SyncState load, for generated field values (hash shapes: bytes, str,
        int, float, None, nested tuples, str-keyed dicts; unicode paths; every Exists incl. CORRUPT with every saved
        value; every IgnoreReason) and hand-written rows in the formats older releases wrote.
"""
from .. import shims  # noqa: F401  (must precede any cloudsync import)
import copy
import msgpack
from hypothesis import strategies as st

from cloudsync.sync.state import SyncState, SyncEntry, Exists
from cloudsync.types import OType, IgnoreReason, LOCAL, REMOTE
from cloudsync.providers.mock import MockProvider

from ..core import ok, violation, invalid
from ..gen import draw_cfg, gen_history, envelope_ok, GADGET_SHAPES
from ..hist import HistoryRun, Stop
from ..engine import DictStorage
from .. import oracles as O
from . import c01

ID = "C08"
LEVEL = "exploration"
RULE = ("main: Hypothesis-generated engine histories (hazard-free two-sided ops + pure conflict gadgets, 4 flavours); "
        "after every single EL/ER/S iteration: {row id -> decoded row} of the sync's tag == {storage_id -> live entry} "
        "on the fields path, oid, hash, sync_path, sync_hash, exists, saved-exists, otype, ignore reason, pending flag "
        "(no stale row, no missing row), and a SyncState reloaded from a copy of the storage answers lookup_oid / "
        "lookup_path(stale) / pending-set identically.  codec: generated entries and legacy-format rows through "
        "serialize -> load.  Non-trivial: main - a step that changed >=1 entry (row contents differ from before the "
        "step); codec - a hash that is not plain bytes or an exists value other than EXISTS.")
ASSUMPTIONS = [
    "storage is the harness DictStorage (dict of rows); SqliteStorage as a map is decided by C09",
    "fault-free histories (the punt-without-commit branch of _sync_one_entry needs a provider fault; C10 covers faults)",
    "int hashes are within the signed 64-bit range msgpack can encode; float hashes are not NaN",
]
FIELDS = ("path", "oid", "hash", "sync_path", "sync_hash", "exists", "_saved_exists", "otype")


def side_view(ss):
    return {"path": ss.path, "oid": ss.oid, "hash": ss.hash, "sync_path": ss.sync_path, "sync_hash": ss.sync_hash,
            "exists": ss.exists.value, "_saved_exists": None if ss._saved_exists is None else ss._saved_exists.value,
            "otype": ss.otype.value if ss.otype is not None else None, "changed": bool(ss.changed)}


def ent_view(ent):
    return {"side0": side_view(ent[0]), "side1": side_view(ent[1]), "ignored": ent.ignored.value}


def row_view(raw):
    ser = msgpack.loads(raw, use_list=False, raw=False)
    out = {}
    for k in ("side0", "side1"):
        s = ser[k]
        out[k] = {f: s.get(f) for f in FIELDS}
        out[k]["changed"] = bool(s.get("changed"))
    out["ignored"] = ser.get("ignored")
    return out


# ----------------------------------------------------------------------------- main part
def budget(tier):
    q = tier == "quick"
    return [{"workers": 16, "examples": 110 if q else 3000},
            {"part": "codec", "workers": 16, "examples": 300 if q else 12000}]


def gen(d, tier):
    cfg = draw_cfg(d)
    acts, world = gen_history(d, cfg, sides=(0, 1), n_ops=(3, 8) if tier == "quick" else (3, 14), w_op=5, w_gadget=2,
                              shapes=tuple(s for s in c01.shapes_for(cfg)))
    return {"cfg": cfg, "acts": acts, "meta": {"excluded": dict(world.excluded)}}


def in_domain(trace):
    return envelope_ok(trace)


class Run(HistoryRun):
    def __init__(self, trace):
        super().__init__(trace)
        self.changed_steps = 0
        self._prev_rows = None

    def _tag(self):
        return self.case.cs.state._tag

    def after_step(self, who):
        e = O.escaped(self.case)
        if e:
            raise Stop(violation("exception_escaped", e))
        state = self.case.cs.state
        tag = self._tag()
        rows = {eid: row_view(raw) for eid, raw in self.case.storage.read_all(tag).items()}
        live = {}
        for ent in state.get_all(discarded=True):
            if ent.is_trash:
                continue
            if ent.storage_id is None:
                raise Stop(violation("no_missing_row", "after %s: live entry has no storage row: %s" % (who, ent)))
            if ent.storage_id in live:
                raise Stop(violation("row_identity", "after %s: two live entries share storage id %r" % (who, ent.storage_id)))
            live[ent.storage_id] = ent_view(ent)
        if rows != live:
            missing = sorted(set(live) - set(rows))
            stale = sorted(set(rows) - set(live))
            diff = [(k, {s: {f: (rows[k][s][f], live[k][s][f]) for f in rows[k][s] if rows[k][s][f] != live[k][s][f]}
                         for s in ("side0", "side1") if rows[k][s] != live[k][s]} or (rows[k]["ignored"], live[k]["ignored"]))
                    for k in rows if k in live and rows[k] != live[k]]
            clause = "no_missing_row" if missing else ("no_stale_row" if stale else "row_equals_entry")
            raise Stop(violation(clause, "after step %s: missing rows %s, stale rows %s, differing (row, memory) %s" % (
                who, missing, stale, diff[:2])))
        if rows != self._prev_rows:
            self.changed_steps += 1
            self._prev_rows = rows
            self._reload_check(who)

    def _reload_check(self, who):
        state = self.case.cs.state
        data = copy.deepcopy(self.case.storage.data)
        s2 = SyncState(state.providers, DictStorage(data), tag=self._tag())
        for side in (LOCAL, REMOTE):
            oids = set(state._oids[side]) | set(s2._oids[side])
            for oid in oids:
                a, b = state.lookup_oid(side, oid), s2.lookup_oid(side, oid)
                if a is not None and a.is_trash:
                    a = None
                ia = a.storage_id if a is not None else None
                ib = b.storage_id if b is not None else None
                if oid is None:
                    continue
                if ia != ib:
                    raise Stop(violation("reload_same_lookups", "after %s: lookup_oid(%d, %r): live row %r, reloaded row %r" % (who, side, oid, ia, ib)))
            paths = set(state._paths[side]) | set(s2._paths[side])
            for p in paths:
                if p is None:
                    continue
                ia = sorted(e.storage_id for e in state.lookup_path(side, p, stale=True) if not e.is_trash)
                ib = sorted(e.storage_id for e in s2.lookup_path(side, p, stale=True))
                if ia != ib:
                    raise Stop(violation("reload_same_lookups", "after %s: lookup_path(%d, %r, stale): live rows %r, reloaded rows %r" % (who, side, p, ia, ib)))
        pa = sorted(e.storage_id for e in state._changeset_storage if not e.is_trash)
        pb = sorted(e.storage_id for e in s2._changeset_storage)
        if pa != pb:
            raise Stop(violation("reload_same_pending", "after %s: pending rows live %r, reloaded %r" % (who, pa, pb)))

    def finish(self):
        cfg = self.trace["cfg"]
        labs = ["flavour:%s/%s" % (cfg["L"], cfg["R"])] + ["gadget:" + g["shape"] for g in self.gadgets]
        return ok(nontrivial=self.changed_steps > 0, labels=labs, counters={"steps_that_changed_rows": self.changed_steps})


def run(trace):
    return Run(trace).execute()


# ----------------------------------------------------------------------------- codec part
_scalars = st.one_of(st.none(), st.binary(max_size=12), st.text(max_size=6), st.integers(-2 ** 63, 2 ** 63 - 1),
                     st.floats(allow_nan=False, allow_infinity=False))
_hash = st.recursive(_scalars, lambda ch: st.one_of(st.tuples(ch), st.tuples(ch, ch), st.tuples(ch, ch, ch),
                                                    st.dictionaries(st.text(max_size=3), ch, max_size=3)), max_leaves=6)
_path = st.one_of(st.none(), st.text(alphabet=st.characters(blacklist_categories=("Cs",)), min_size=1, max_size=10).map(lambda s: "/" + s))
_oid = st.one_of(st.text(min_size=1, max_size=8), st.integers(1, 2 ** 40).map(str))
EXISTS_VALUES = [e.value for e in Exists]
LEGACY = ("exists_true", "exists_false", "exists_none", "ignored_trashed", "discarded_flag", "conflicted_flag", "missing_new_keys")


def gen_codec(d, tier):
    sides = []
    for i in (0, 1):
        # a row whose two sides both lack an oid is never persisted (such entries are trash: their row is deleted)
        has = d.chance(4, 5) or (i == 1 and sides[0]["oid"] is None)
        oid = d.draw(_oid) if has else None
        ex = d.choice(EXISTS_VALUES)
        sides.append({"otype": d.choice(("file", "dir")), "oid": oid, "path": d.draw(_path) if oid else None,
                      "hash": d.draw(_hash), "sync_hash": d.draw(_hash), "sync_path": d.draw(_path),
                      "exists": ex, "saved": d.choice(EXISTS_VALUES[:5] + [None]) if ex == "corrupt" else None,
                      "changed": d.choice((None, 0, 1.5, 1000000.25))})
    legacy_ok = [x for x in LEGACY if x != "missing_new_keys" or all(s["exists"] != "corrupt" for s in sides)]
    return {"sides": sides, "ignored": d.choice([r.value for r in IgnoreReason]),
            "legacy": d.choice(legacy_ok) if d.chance(1, 4) else None}


_PROVS = []


def _state(storage=None, tag=None):
    if not _PROVS:
        _PROVS.extend([MockProvider(False, True), MockProvider(False, True)])
    return SyncState(tuple(_PROVS), storage, tag=tag)


def run_codec(trace):
    st0 = _state()
    ent = SyncEntry(st0, OType(trace["sides"][0]["otype"]))
    for i, s in enumerate(trace["sides"]):
        ss = ent[i]
        ss.otype = OType(s["otype"])
        if s["oid"] is not None:
            ss.oid = s["oid"]
            if s["path"] is not None:
                ss.path = s["path"]
        ss.hash = s["hash"]
        ss.sync_hash = s["sync_hash"]
        ss.sync_path = s["sync_path"]
        if s["exists"] == "corrupt":
            if s["saved"] is not None:
                ss.exists = Exists(s["saved"])
            ss.exists = Exists.CORRUPT
        else:
            ss.exists = Exists(s["exists"])
        ss.changed = s["changed"]
    ent.ignored = IgnoreReason(trace["ignored"])
    want = ent_view(ent)
    try:
        raw = ent.serialize()
    except Exception as e:
        return violation("serialize", "serialize raised %r for %r" % (e, trace))
    legacy = trace.get("legacy")
    if legacy:
        ser = msgpack.loads(raw, use_list=False, raw=False)
        ser = {k: (dict(v) if isinstance(v, dict) else v) for k, v in ser.items()}
        if legacy.startswith("exists_"):
            val = {"exists_true": True, "exists_false": False, "exists_none": None}[legacy]
            for k, i in (("side0", 0), ("side1", 1)):
                ser[k]["exists"] = val
                ser[k]["_saved_exists"] = None
                want[k]["exists"] = {True: "exists", False: "trashed", None: "unknown"}[val]
                want[k]["_saved_exists"] = None
        elif legacy == "ignored_trashed":
            ser["ignored"] = "trashed"
            want["ignored"] = "discarded"
        elif legacy == "discarded_flag":
            ser.pop("ignored", None)
            ser["discarded"] = True
            want["ignored"] = "discarded"
        elif legacy == "conflicted_flag":
            ser.pop("ignored", None)
            ser["conflicted"] = True
            want["ignored"] = "conflict"
        elif legacy == "missing_new_keys":
            for k in ("side0", "side1"):
                if ser[k]["exists"] == "corrupt":
                    return invalid("rows written before the corrupt marker existed cannot carry it")
                for f in ("size", "mtime", "_saved_exists"):
                    ser[k].pop(f, None)
            ser.pop("priority", None)
        raw = msgpack.dumps(ser, use_bin_type=True)
    storage = DictStorage()
    storage.data["rows"]["T"] = {7: raw}
    st2 = _state(storage, "T")
    loaded = [e for e in st2.get_all(discarded=True)]
    both_none = trace["sides"][0]["oid"] is None and trace["sides"][1]["oid"] is None
    if both_none:
        return invalid("rows without any oid are never persisted")
    rows_left = storage.read_all("T")
    if 7 not in rows_left:
        return violation("row_loads", "the row failed to load and was dropped: %r" % (trace,))
    if both_none:
        got_ent = None
        for side in (0, 1):
            got_ent = got_ent or st2._oids[side].get(None)
    else:
        if len(loaded) != 1:
            return violation("row_loads", "expected exactly one loaded entry, got %d" % len(loaded))
        got_ent = loaded[0]
    if got_ent is None:
        return violation("row_loads", "entry not found after load")
    got = ent_view(got_ent)
    if got != want:
        diff = {k: {f: (want[k][f], got[k][f]) for f in want[k] if want[k][f] != got[k][f]} for k in ("side0", "side1") if want[k] != got[k]}
        if want["ignored"] != got["ignored"]:
            diff["ignored"] = (want["ignored"], got["ignored"])
        return violation("round_trip", "fields changed by serialize->load (want, got): %r" % (diff,))
    if got_ent.storage_id != 7:
        return violation("round_trip", "storage id not restored: %r" % (got_ent.storage_id,))
    for side in (0, 1):
        oid = trace["sides"][side]["oid"]
        if oid is not None and st2.lookup_oid(side, oid) is not got_ent:
            return violation("load_rebuilds_indexes", "lookup_oid(%d, %r) does not find the loaded entry" % (side, oid))
    nt = any(not isinstance(s["hash"], (bytes, type(None))) or s["exists"] != "exists" for s in trace["sides"])
    labs = ["codec"] + (["legacy:" + legacy] if legacy else []) + sorted({"exists:" + s["exists"] for s in trace["sides"]})
    return ok(nontrivial=nt, labels=labs)


PARTS = {"codec": (gen_codec, run_codec)}
