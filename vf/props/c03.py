"""C03  One-sided changes mirror exactly; origin side untouched; no echo."""
from ..core import ok, violation
from ..gen import draw_cfg, gen_history, envelope_ok
from ..hist import HistoryRun, Stop
from .. import oracles as O

ID = "C03"
LEVEL = "exploration"
RULE = ("Hypothesis-generated one-sided histories (user ops create/write/rename file+folder/delete/rmtree/mkdir on one "
        "drawn side, 4 id/path flavours, arbitrary interleaving with single EL/ER/S production-loop iterations and "
        "settles, hazard-free envelope).  Non-trivial = >=3 user ops incl. at least one rename/delete/overwrite and "
        ">=1 engine step between two user ops; distinct = distinct trace digest.")
ASSUMPTIONS = [
    "mock providers (id- and path-style, case-sensitive) stand in for real accounts",
    "hazards exclude by construction: PATH_REUSE, DIRMOVE_ISOLATED, DIRMOVE_TOMB (open known findings, see known_findings.json)",
    "virtual clock; quiet decided by a 400-round step bound, not wall-clock",
]


def budget(tier):
    return {"workers": 16, "examples": 400 if tier == "quick" else 6000}


def gen(d, tier):
    cfg = draw_cfg(d, allow_ci=True)
    origin = d.int(0, 1)
    cfg["origin"] = origin
    n_ops = (3, 8) if tier == "quick" else (3, 16)
    acts, world = gen_history(d, cfg, sides=(origin,), n_ops=n_ops, sizes=True)
    return {"cfg": cfg, "acts": acts, "meta": {"excluded": dict(world.excluded)}}


def in_domain(trace):
    return envelope_ok(trace, sides=(trace["cfg"]["origin"],))


class Run(HistoryRun):
    def __init__(self, trace):
        super().__init__(trace)
        self.origin = trace["cfg"]["origin"]
        self._before = None

    def before_step(self, who):
        self._before = self.case.snap(self.origin)

    def after_step(self, who):
        e = O.escaped(self.case)
        if e:
            raise Stop(violation("exception_escaped", e))
        after = self.case.snap(self.origin)
        if after != self._before:
            raise Stop(violation("origin_untouched", "engine step %s changed the origin side: %s" % (
                who, O.diff_trees(self._before, after, "before", "after")[:4])))

    def at_quiet(self, rounds, final):
        if self.exp is None:
            return
        e = O.equals_expected(self.case, self.exp)
        if e:
            raise Stop(violation("mirror_exact", e))

    def finish(self):
        e = O.no_echo(self.case)
        if e:
            raise Stop(violation("no_echo", e))
        st = self.stats
        nt = st["user_ops"] >= 3 and bool(st["kinds"] & {"rename", "delete", "write", "rmtree"}) and st["step_between_ops"]
        labs = ["flavour:%s/%s" % (self.trace["cfg"]["L"], self.trace["cfg"]["R"]), "origin:%d" % self.origin]
        labs += ["op:" + k for k in sorted(st["kinds"])]
        return ok(nontrivial=nt, labels=labs)


def run(trace):
    for a in trace["acts"]:
        if a[0] == "u" and a[1] != trace["cfg"]["origin"]:
            from ..core import invalid
            return invalid("user op on the non-origin side")
    return Run(trace).execute()
