"""Hypothesis-driven generators for engine histories.

Every random choice goes through `D` (a thin wrapper over `st.data()` draws), so
that a case is a pure function of the Hypothesis choice sequence and shrinks /
replays with it.  Generation needs only the pure model (vf/model.py): the engine
is not consulted, so `gen(...)` returns a complete trace that `run(trace)` then
executes literally.
"""
from hypothesis import strategies as st

from .model import World

FLAVOURS = (("id", "id"), ("path", "id"), ("id", "path"), ("path", "path"))
OP_KINDS = (("create", 5), ("write", 4), ("rename_file", 4), ("rename_dir", 2), ("delete", 3),
            ("rmtree", 1), ("mkdir", 3))
BASE_OPS = (("mkdir", "/d"), ("mkdir", "/e"), ("mkdir", "/d/e"), ("mkdir", "/b"),
            ("create", "/a"), ("create", "/d/a"), ("create", "/d/e/b"), ("create", "/e/c"))


class D:
    """Draw helper."""

    def __init__(self, data):
        self._draw = data.draw

    def int(self, lo, hi):
        return self._draw(st.integers(lo, hi))

    def bool(self):
        return self._draw(st.booleans())

    def choice(self, seq):
        seq = list(seq)
        return seq[self._draw(st.integers(0, len(seq) - 1))]

    def weighted(self, pairs):
        pairs = list(pairs)
        total = sum(w for _, w in pairs)
        x = self._draw(st.integers(0, total - 1))
        for v, w in pairs:
            if x < w:
                return v
            x -= w
        raise AssertionError

    def chance(self, num, den):
        return self._draw(st.integers(0, den - 1)) < num

    def draw(self, strategy):
        return self._draw(strategy)


def draw_cfg(d, flavours=FLAVOURS, allow_ci=False, **extra):
    L, R = d.choice(flavours)
    cfg = {"L": L, "R": R, "salt": d.int(0, 7)}
    if allow_ci and L == "id" and R == "id" and d.chance(1, 3):
        # both providers case-insensitive (id-style only: the path-style case-insensitive mock is open finding KF-22);
        # users then spell existing folders and files in arbitrary case
        cfg["ci"] = True
    # provider-side event filtering (id-style sides only; the mock ignores it for path-style) and roots handed to the
    # engine by object id as well as by path
    if d.chance(1, 5):
        cfg["filter"] = True
    if d.chance(1, 5):
        cfg["root_oids"] = True
    cfg.update(extra)
    return cfg


def _variant(d, path, world=None):
    """Arbitrary-case spelling of an existing path.  Only components that name an object which is settled and has not
    been touched in this window are re-spelled (open finding KF-46c: a folder made or moved in the same window and then
    spelled in another case as the parent of a new name is never matched)."""
    out, prefix = [], ""
    for c in path.split("/"):
        if not c:
            out.append(c)
            continue
        prefix += "/" + c
        vary = world is None or world.settled_untouched(prefix)
        out.append(c.upper() if vary and d.chance(1, 4) else c)
    return "/".join(out)


def spelled(d, world, c):
    """How the user spells the op `c` (model spelling: lower case).  Case-sensitive cases: unchanged.  Case-insensitive
    cases: every component that names an EXISTING object may be upper-cased; the leaf of a new name stays as it is."""
    if not getattr(world, "ci", False):
        return list(c)
    op = c[0]
    if op in ("create", "mkdir"):
        par, _, leaf = c[1].rpartition("/")
        return [op, _variant(d, par, world) + "/" + leaf] + list(c[2:])
    if op == "rename":
        par, _, leaf = c[2].rpartition("/")
        return [op, _variant(d, c[1], world), _variant(d, par, world) + "/" + leaf]
    return [op, _variant(d, c[1], world)] + list(c[2:])


def lower_op(cfg, op):
    """Model spelling of a user op taken from a trace (lower case when the providers are case-insensitive)."""
    if not cfg.get("ci"):
        return tuple(op)
    return tuple(x.lower() if isinstance(x, str) and x.startswith("/") and i in (1, 2) and (i == 1 or op[0] == "rename") else x
                 for i, x in enumerate(op))


def content_for(d, world, sizes):
    if sizes and d.chance(1, 4):
        return world.new_content(d.choice((0, 1, 700, 1500, 3000)))
    return world.new_content()


def emit_user_op(d, world, acts, side, kinds=OP_KINDS, sizes=False):
    """Draw one hazard-free user op for `side`; returns the op tuple or None."""
    kinds = list(kinds)
    if getattr(world, "ci", False) and d.chance(1, 8):
        # case-only rename of a file (case-insensitive providers): same object, same name modulo case
        files = [f for f in world.side[side].files() if world.hazard(side, "write", f, "x") is None]
        if files:
            f = d.choice(files)
            par, _, leaf = f.rpartition("/")
            acts.append(["u", side, "rename", _variant(d, f, world), _variant(d, par, world) + "/" + leaf.upper()])
            world.touch(side, f)
            world.recent = (getattr(world, "recent", []) + [f])[-3:]
            return ("case_rename", f)
    while kinds:
        kind = d.weighted(kinds)
        kinds = [(k, w) for k, w in kinds if k != kind]
        allowed = world.allowed(side, kind)
        if not allowed:
            continue
        # locality bias: half of the time prefer an object touched recently (repeated work on one object is
        # where retries, stale temp files and half-synced states live)
        # name-reuse bias: where re-using a name vacated in this window is inside the envelope (both sides
        # id-style, same type), do it often -- freed-name reuse is a classic source of entry mix-ups
        vac = world.win.vac[side]
        if vac and kind in ("create", "mkdir", "rename_file", "rename_dir"):
            reuse = [c for c in allowed if c[-1] in vac]
            if reuse and d.chance(1, 2):
                allowed = reuse
        recent = getattr(world, "recent", [])
        if recent and d.bool():
            near = [c for c in allowed if c[1] in recent or (len(c) > 2 and c[2] in recent)]
            if near:
                allowed = near
        c = d.choice(allowed)
        if c[0] in ("create", "write"):
            c = (c[0], c[1], content_for(d, world, sizes))
        acts.append(["u", side] + spelled(d, world, c))
        world.apply(side, *c)
        world.recent = (getattr(world, "recent", []) + [c[-1] if c[0] == "rename" else c[1]])[-3:]
        return c
    return None


def _try(world, acts, side, op):
    """Apply one op of a macro if it is model-valid and hazard-free; returns True if emitted."""
    from .model import ModelInvalid
    try:
        world.side[side].check(*op)
    except ModelInvalid:
        return False
    h = world.hazard(side, *op)
    if h is not None:
        world.excluded[h] += 1
        return False
    acts.append(["u", side] + (spelled(world._d, world, op) if getattr(world, "ci", False) else list(op)))
    world.apply(side, *op)
    world.recent = (getattr(world, "recent", []) + [op[-1] if op[0] == "rename" else op[1]])[-3:]
    return True


MACROS = ("takeover", "safe_save", "swap", "move_and_edit", "ephemeral", "takeover_keep", "deep_create_then_rename")


def emit_macro(d, world, acts, side, kinds=None):
    """Idioms real applications produce: several ops on related names with no engine step in between
    (name takeover, save-via-temp-file, swap, move+edit, create+delete).  Every op still passes the hazard
    predicates; a macro whose next op is rejected simply stops there.  Returns number of ops emitted."""
    tree = world.side[side]
    files = tree.files()
    news = world.new_paths(side)
    kind = d.choice(kinds or MACROS)
    n0 = len(acts)
    if kind in ("takeover", "takeover_keep") and len(files) >= 2 and news:
        recent = [f for f in getattr(world, "recent", []) if f in files]
        y = d.choice(recent) if recent and d.bool() else d.choice(files)    # the file that takes the name over
        x = d.choice([f for f in files if f != y])
        n = d.choice(news)
        if _try(world, acts, side, ("rename", x, n)) and _try(world, acts, side, ("rename", y, x)) and kind == "takeover":
            _try(world, acts, side, ("delete", n))
    elif kind == "safe_save" and files and news:
        x = d.choice(files)
        t = d.choice(news)
        if _try(world, acts, side, ("create", t, world.new_content())) and _try(world, acts, side, ("delete", x)):
            _try(world, acts, side, ("rename", t, x))
    elif kind == "swap" and len(files) >= 2 and news:
        x = d.choice(files)
        y = d.choice([f for f in files if f != x])
        t = d.choice(news)
        if _try(world, acts, side, ("rename", x, t)) and _try(world, acts, side, ("rename", y, x)):
            _try(world, acts, side, ("rename", t, y))
    elif kind == "move_and_edit" and files and news:
        x = d.choice(files)
        n = d.choice(news)
        if _try(world, acts, side, ("rename", x, n)):
            _try(world, acts, side, ("write", n, world.new_content()))
    elif kind == "deep_create_then_rename":
        # something new at least two levels below a folder, then that folder is renamed before the engine has looked
        dirs = [g for g in tree.dirs() if g]
        tops = [g for g in dirs if any(tree.is_dir(q) for q in tree.subtree(g))]
        if tops and news:
            x = d.choice(tops)
            inner = [q for q in tree.subtree(x) if tree.is_dir(q)]
            h = d.choice(inner)
            from .model import NAMES
            free = [h + "/" + n for n in NAMES if not tree.exists(h + "/" + n)]
            dst = [n for n in news if not n.startswith(x + "/") and n != x]
            if free and dst:
                p = d.choice(free)
                first = ("mkdir", p) if d.bool() else ("create", p, world.new_content())
                if _try(world, acts, side, first):
                    _try(world, acts, side, ("rename", x, d.choice(dst)))
    elif kind == "ephemeral" and news:
        n = d.choice(news)
        if _try(world, acts, side, ("create", n, world.new_content())):
            _try(world, acts, side, ("delete", n))
    return len(acts) - n0


def step_act(d, world, who):
    """One engine step; with the case's tempo > 0 some virtual time passes before it (production loops sleep between
    iterations; punted entries only become eligible again as time passes)."""
    world.note_step(who)
    tempo = getattr(world, "tempo", 0)
    if tempo and d.bool():
        return ["step", who, tempo]
    return ["step", who]


def emit_starve(d, world, acts, side):
    """Starved event loop: some ops on `side`, ONE intake step of that side, more ops on the same objects (locality
    bias), then a long run of steps in which that side's event loop never runs (sync steps and the other side's
    intake only) -- the engine works from half the story plus whatever it polls itself.  Returns ops emitted."""
    n0 = len([a for a in acts if a[0] == "u"])
    for _ in range(d.int(1, 2)):
        emit_user_op(d, world, acts, side, kinds=(("write", 6), ("create", 3), ("rename_file", 2), ("mkdir", 1)))
    acts.append(step_act(d, world, "EL" if side == 0 else "ER"))
    for _ in range(d.int(1, 3)):
        if d.chance(1, 2):
            # (name take-overs and moves of the object the engine has just been told about)
            emit_macro(d, world, acts, side, kinds=("takeover_keep", "takeover_keep", "takeover", "move_and_edit", "swap"))
        else:
            emit_user_op(d, world, acts, side)
    other = "ER" if side == 0 else "EL"
    for _ in range(d.int(3, 16)):
        acts.append(step_act(d, world, d.choice(("S", "S", "S", other))))
    return len([a for a in acts if a[0] == "u"]) - n0


def emit_base(d, world, acts, base_side):
    for op in BASE_OPS:
        if op[0] == "create":
            op = (op[0], op[1], world.new_content())
        acts.append(["u", base_side] + list(op))
        world.apply(base_side, *op)
    acts.append(["settle"])
    world.settle()


GADGET_SHAPES = ("create_create_same", "create_create_diff", "edit_edit", "edit_delete", "delete_delete",
                 "rename_edit", "rename_rename", "create_rename_onto", "file_vs_folder", "mkdir_mkdir",
                 "rmdir_create_inside", "dirmove_create_inside", "rmtree_create_inside", "rename_delete", "dirmove_rmtree")


def emit_gadget(d, world, acts, shapes=GADGET_SHAPES):
    """Draw one *pure* conflict gadget: both ops hit settled, otherwise untouched objects; no S step between
    them (event-intake steps allowed); every path involved is retired afterwards.  Returns the shape or None."""
    from .model import NAMES, depth, MAX_DEPTH
    t0 = world.side[0]
    files = [f for f in t0.files() if world.settled_untouched(f)]
    sdirs = [g for g in t0.dirs() if g and world.settled_untouched(g)]
    used_as_parent = world.win.R[0] | world.win.R[1]
    empty_dirs = [g for g in sdirs if not t0.subtree(g) and not world.side[1].subtree(g) and g not in used_as_parent]
    parents = [""] + [g for g in sdirs if depth(g) < MAX_DEPTH - 1]
    news = [g + "/" + n for g in parents for n in NAMES if world.free_new_path(g + "/" + n)]
    shapes = list(shapes)
    while shapes:
        shape = d.choice(shapes)
        shapes.remove(shape)
        a = d.int(0, 1)     # side of the first op
        b = 1 - a
        ops = None
        if shape == "create_create_same" and news:
            p = d.choice(news); c = world.new_content()
            ops = [[a, "create", p, c], [b, "create", p, c]]
        elif shape == "create_create_diff" and news:
            p = d.choice(news)
            ops = [[a, "create", p, world.new_content()], [b, "create", p, world.new_content()]]
        elif shape == "edit_edit" and files:
            f = d.choice(files)
            ops = [[a, "write", f, world.new_content()], [b, "write", f, world.new_content()]]
        elif shape == "edit_delete" and files:
            f = d.choice(files)
            ops = [[a, "write", f, world.new_content()], [b, "delete", f]]
        elif shape == "delete_delete" and files:
            f = d.choice(files)
            ops = [[a, "delete", f], [b, "delete", f]]
        elif shape == "rename_edit" and files and news:
            f = d.choice(files); n = d.choice(news)
            ops = [[a, "rename", f, n], [b, "write", f, world.new_content()]]
        elif shape == "rename_rename" and files and len(news) >= 2:
            f = d.choice(files); n1 = d.choice(news); n2 = d.choice([x for x in news if x != n1])
            ops = [[a, "rename", f, n1], [b, "rename", f, n2]]
        elif shape == "create_rename_onto" and files and news:
            f = d.choice(files); p = d.choice(news)
            ops = [[a, "create", p, world.new_content()], [b, "rename", f, p]]
        elif shape == "file_vs_folder" and news:
            p = d.choice(news)
            ops = [[a, "create", p, world.new_content()], [b, "mkdir", p]]
        elif shape == "mkdir_mkdir" and news:
            p = d.choice(news)
            ops = [[a, "mkdir", p], [b, "mkdir", p]]
        elif shape == "rmdir_create_inside" and empty_dirs:
            g = d.choice(empty_dirs)
            ops = [[a, "delete", g], [b, "create", g + "/" + d.choice(NAMES), world.new_content()]]
        elif shape == "rename_delete" and files and news:
            f = d.choice(files); n1 = d.choice(news)
            ops = [[a, "rename", f, n1], [b, "delete", f]]
        elif shape == "dirmove_rmtree":
            # a folder with content is renamed on one side and removed (with its content) on the other
            full = [g for g in sdirs if t0.subtree(g) and g not in used_as_parent
                    and all(world.settled_untouched(q) and q not in used_as_parent for q in t0.subtree(g))]
            if full and news:
                g = d.choice(full)
                h = max([depth(q) for q in t0.subtree(g)]) - depth(g)
                cand = [n for n in news if not n.startswith(g + "/") and depth(n) + h <= MAX_DEPTH]
                if cand:
                    ops = [[a, "rename", g, d.choice(cand)], [b, "rmtree", g]]
        elif shape == "rmtree_create_inside":
            # a folder TREE (at least two levels) is removed on one side while the other side puts a new file into its
            # deepest folder
            trees = []
            for g in sdirs:
                sub = t0.subtree(g)
                inner = [q for q in sub if t0.is_dir(q)]
                if inner and g not in used_as_parent and all(world.settled_untouched(q) and q not in used_as_parent for q in sub):
                    trees.append((g, max(inner, key=lambda q: (q.count("/"), q))))
            if trees:
                g, h = d.choice(trees)
                free = [n for n in NAMES if not t0.exists(h + "/" + n)]
                if free and depth(h) < MAX_DEPTH:
                    ops = [[a, "rmtree", g], [b, "create", h + "/" + d.choice(free), world.new_content()]]
        elif shape == "dirmove_create_inside" and empty_dirs and news:
            g = d.choice(empty_dirs)
            cand = [n for n in news if not n.startswith(g + "/")]
            if cand:
                ops = [[a, "rename", g, d.choice(cand)], [b, "create", g + "/" + d.choice(NAMES), world.new_content()]]
        if ops is None:
            continue
        if d.bool():
            ops.reverse()
        mid = [d.choice(("EL", "ER")) for _ in range(d.int(0, 2))]
        for (sd, *op) in ops:
            world.apply_gadget_op(sd, *op)
        acts.append(["gadget", {"shape": shape, "ops": ops, "mid": mid}])
        return shape
    return None


def gen_history(d, cfg, *, sides=(0, 1), n_ops=(3, 8), hazards=None, with_base=None, sizes=False,
                w_op=5, w_step=4, w_settle=1, kinds=OP_KINDS, w_gadget=0, shapes=GADGET_SHAPES,
                w_extra=0, extra=None, world_init=None, w_macro=1):
    """Envelope history: hazard-free user ops on `sides` interleaved arbitrarily with engine steps."""
    world = World(path_style=(cfg["L"] == "path", cfg["R"] == "path"), hazards=hazards)
    if world_init:
        world_init(world)
    world.tempo = d.choice((0, 0.02, 0.3))
    world.ci = bool(cfg.get("ci"))
    if world.ci:
        world.strict_reuse = True       # open finding KF-46: name takeover spelled in another case
    world._d = d
    acts = []
    if with_base is None:
        with_base = d.chance(4, 5)
    if with_base:
        emit_base(d, world, acts, d.choice(sides))
    n = d.int(*n_ops)
    done = 0
    guard = 0
    while done < n and guard < 10 * n + 20:
        guard += 1
        k = d.weighted([x for x in (("op", w_op), ("step", w_step), ("settle", w_settle), ("gadget", w_gadget),
                                     ("extra", w_extra), ("macro", w_macro)) if x[1]])
        if k == "macro":
            if d.chance(1, 3):
                done += emit_starve(d, world, acts, d.choice(sides))
            else:
                done += emit_macro(d, world, acts, d.choice(sides))
        elif k == "extra":
            extra(d, world, acts)
        elif k == "gadget":
            if emit_gadget(d, world, acts, shapes) is not None:
                done += 1
        elif k == "op":
            if emit_user_op(d, world, acts, d.choice(sides), kinds=kinds, sizes=sizes) is not None:
                done += 1
            else:
                acts.append(["settle"])
                world.settle()
        elif k == "step":
            if d.chance(1, 4):
                # starvation burst: for a while only a subset of the three loops gets to run (a slow event thread,
                # a busy sync thread); iid single steps almost never produce ten steps in a row without EL
                sub = d.choice((("S",), ("S",), ("S", "EL"), ("S", "ER"), ("EL",), ("ER",), ("EL", "ER")))
                for _ in range(d.int(3, 14)):
                    acts.append(step_act(d, world, d.choice(sub)))
            else:
                acts.append(step_act(d, world, d.choice(("EL", "ER", "S"))))
        else:
            acts.append(["settle"])
            world.settle()
    acts.append(["settle"])
    world.settle()
    return acts, world


def envelope_ok(trace, hazards=None, sides=(0, 1), world_init=None):
    """True iff every user op of the trace is model-valid and hazard-free (used to keep ddmin inside the
    generated domain, so that a shrunk trace is still a member of the domain the check claims)."""
    from .model import ModelInvalid
    cfg = trace["cfg"]
    world = World(path_style=(cfg.get("L") == "path", cfg.get("R") == "path"), hazards=hazards)
    if world_init:
        world_init(world)
    if cfg.get("ci"):
        world.strict_reuse = True
    for a in trace["acts"]:
        if a[0] == "u":
            if a[1] not in sides:
                return False
            op = lower_op(cfg, a[2:])
            if cfg.get("ci") and op[0] == "rename" and op[1] == op[2]:
                if world.hazard(a[1], "write", op[1], "x") is not None or not world.side[a[1]].is_file(op[1]):
                    return False
                world.touch(a[1], op[1])
                continue
            try:
                world.side[a[1]].check(*op)
            except ModelInvalid:
                return False
            if world.hazard(a[1], *op) is not None:
                return False
            world.apply(a[1], *op)
            if not world.exp_valid:
                return False
        elif a[0] == "gadget":
            g = a[1]
            for (sd, *op) in g["ops"]:
                if op[0] in ("write", "delete", "rename"):
                    if not world.settled_untouched(op[1]) and op[1] not in world.retired:
                        return False
                try:
                    world.side[sd].check(*op)
                except ModelInvalid:
                    return False
            for (sd, *op) in g["ops"]:
                try:
                    world.apply_gadget_op(sd, *op)
                except ModelInvalid:
                    return False
        elif a[0] == "step":
            world.note_step(a[1])
        elif a[0] == "settle":
            world.settle()
    return True
