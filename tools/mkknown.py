"""Builds replays/known/*.json and known_findings.json from the table below.
For every open finding the witness is replayed under each candidate property; only properties whose own
oracle flags it are listed.  Run by hand after triage (never at check time)."""
import json, os, sys
sys.path.insert(0, "/verif")
from vf import shims
from vf.core import load_prop

V = "/verif"

def acts(spec):
    out = []
    for tok in [t.strip() for t in spec.split(";") if t.strip()]:
        if tok in ("settle",):
            out.append(["settle"])
        elif tok in ("EL", "ER", "S"):
            out.append(["step", tok])
        elif tok.startswith("G:"):
            out.append(["gadget", json.loads(tok[2:])])
        else:
            side, rest = tok.split(":", 1)
            parts = rest.split()
            out.append(["u", "LR".index(side)] + parts)
    return out

OPEN = [
 # id, candidate props, hazard, cfg, spec, title, what_fails
 ("KF-07", ["C01", "C03", "C04"], "DIRMOVE_ISOLATED", {"L": "id", "R": "id", "origin": 0, "salt": 0},
  "L:mkdir /d; settle; L:mkdir /d/d; L:rename /d /b; settle",
  "folder renamed while a child created in it is still unsynced (id-style)",
  "mkdir /d/d then rename /d /b before the child is synced: other side keeps a stale /d next to /b"),
 ("KF-07b", ["C01", "C03", "C04"], "DIRMOVE_ISOLATED", {"L": "path", "R": "id", "origin": 0, "salt": 6},
  "L:mkdir /e; L:create /e/c c4; settle; L:rename /e /c; L:delete /c/c; settle",
  "folder renamed and a child deleted under the new name in one window (path-style origin)",
  "rename /e /c then delete /c/c: the deleted child survives on the other side as /c/c"),
 ("KF-07c", ["C03"], "DIRMOVE_ISOLATED", {"L": "id", "R": "path", "origin": 1, "salt": 0},
  "R:mkdir /d; R:mkdir /d/e; settle; R:rename /d /b; R:rmtree /b; settle",
  "folder renamed then removed in one window (path-style origin): engine re-creates it on the origin side",
  "rename /d /b then rmtree /b: a sync step re-creates /d and /d/e on the side where the user removed them"),
 ("KF-08", ["C01", "C03"], "PATH_REUSE", {"L": "path", "R": "id", "origin": 0, "salt": 1},
  "L:mkdir /d; settle; L:rmtree /d; L:create /d c6; settle",
  "path re-used with another type in one window (path-style origin): origin file renamed to .conflicted",
  "rmtree /d then create file /d: the engine renames the user's new /d to /d.conflicted on the origin side"),
 ("KF-09", ["C01", "C03"], "PATH_REUSE", {"L": "path", "R": "path", "origin": 1, "salt": 7},
  "R:create /a c1; settle; R:delete /a; R:mkdir /a; settle",
  "file deleted and a folder made at the same path in one window (path-style origin): never quiet",
  "delete file /a then mkdir /a: entry with local FILE / remote DIRECTORY is punted forever (stall)"),
 ("KF-10", ["C01", "C03"], "PATH_REUSE", {"L": "id", "R": "id", "origin": 1, "salt": 6},
  "R:create /b c1#700; settle; R:rename /b /d; R:mkdir /b; R:delete /d; settle",
  "id-style: file renamed away, folder made at the old name, file deleted, one window",
  "rename /b /d; mkdir /b; delete /d: a '/b.conflicted' artefact appears on the other side"),
 ("KF-11", ["C01", "C03", "C04"], "DIRMOVE_TOMB", {"L": "path", "R": "id", "origin": 0, "salt": 0},
  "L:mkdir /e; L:create /a c1; settle; L:delete /a; settle; L:rename /e /a; settle",
  "path-style: folder renamed onto a path that was deleted in an earlier window",
  "delete /a; settle; rename folder /e /a: the tombstone entry of the old /a swallows the rename, other side keeps /e"),
 ("KF-12", ["C01"], None, {"L": "id", "R": "path", "salt": 4},
  'L:mkdir /e; L:create /e/c c4; settle; G:{"shape":"create_rename_onto","ops":[[1,"create","/b","c5"],[0,"rename","/e/c","/b"]],"mid":["ER"]}; R:mkdir /e/d; ER; S; S; S; settle',
  "pure gadget: one side creates a file where the other side renames a synced file to",
  "create /b || rename /e/c /b: stale copy of the renamed file stays at its old name on one side (other schedules: TEMP_RENAME entry never settles)"),
 ("KF-14b", ["C01"], None, {"L": "path", "R": "path", "salt": 6},
  'L:mkdir /a; settle; G:{"shape":"dirmove_create_inside","ops":[[0,"rename","/a","/c"],[1,"create","/a/c","c1"]],"mid":["EL","EL"]}; S; settle',
  "pure gadget, any path-style side: folder renamed on one side while the other side creates a file inside it",
  "rename /a /c || create /a/c: the new file exists only on the side that created it"),
]

FIXED = [
 ("KF-01", ["C03"], "725cc79", "replays/regress/C03/kf01-create-one-file.json", "debug_sig passes str to xxhash>=2",
  "CloudSync()/SyncEntry() raise TypeError('Strings must be encoded before hashing'): no engine can be constructed; history: create one file"),
 ("KF-24", ["C03"], "62524b6", "replays/regress/C03/kf24-folder-delete-create-folded.json", "folder delete + unrelated mkdir folded into a folder rename on path-id sides",
  "path-style origin: 'rmtree /d/e; mkdir /b/b' in one window: lookup_deletion matches hash None==None, engine renames the deleted folder on the other side (resurrecting its deleted child) and stalls on a file/folder type clash"),
 ("KF-05", ["C13"], "efbaef3", "replays/regress/C13/kf05-win-join-one-char.json", "Provider.join IndexError on one-character paths with win_paths",
  "normalize_path('0\\\\') on a win_paths convention: join('0') indexes joined_path[1] (IndexError)"),
]

def main():
    os.makedirs(os.path.join(V, "replays/known"), exist_ok=True)
    findings = []
    have = {p for p in ("C01","C02","C03","C04") if os.path.exists(os.path.join(V, "vf/props/%s.py" % p.lower()))}
    for kid, props, hazard, cfg, spec, title, what in OPEN:
        tr = {"cfg": cfg, "acts": acts(spec)}
        wit = "replays/known/%s.json" % kid
        json.dump({"description": "%s: %s" % (kid, title), "trace": tr}, open(os.path.join(V, wit), "w"), indent=1)
        flagged = []
        for p in props:
            if p not in have:
                continue
            out = load_prop(p).run(json.loads(json.dumps(tr)))
            print(kid, p, out["status"], out["clause"], out["detail"][:100])
            if out["status"] == "violation":
                flagged.append(p)
        findings.append({"id": kid, "property": flagged, "status": "open", "title": title, "hazard": hazard,
                         "witness": wit, "commit": None, "what_fails": what})
    for kid, props, commit, wit, title, what in FIXED:
        findings.append({"id": kid, "property": props, "status": "fixed", "title": title, "hazard": None,
                         "witness": wit, "commit": commit, "what_fails": what})
    extra = os.path.join(V, "tools", "known_extra.json")
    if os.path.exists(extra):
        findings += json.load(open(extra))
    json.dump({"_comment": "One entry per root cause. status=open: witness replayed every run and reported as KNOWN-FINDING; its hazard is excluded by construction from the generated domain. status=fixed: repaired by a 'fix:' commit in /repo; witness replayed as a regression and reported as VIOLATION if it returns. Generated by tools/mkknown.py by hand after triage; never written at check time.",
               "findings": findings}, open(os.path.join(V, "known_findings.json"), "w"), indent=1)
    print("wrote", len(findings))

if __name__ == "__main__":
    main()
