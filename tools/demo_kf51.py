"""KF-51 demonstration: an event queued on an EventManager between the end of its drain loop and the reset of the
queue is lost.  The 'other thread' is simulated at exactly that instant by a list subclass that queues one more event
when the drain loop has seen the end of the list (old code: iterator exhausted, before `self._queue = []`; repaired
code: right before `del self._queue[:done]`).
usage: python demo_kf51.py <repo-dir>   -> exit 1 if the late event is lost, 0 if it is kept."""
import sys, io, logging
sys.path.insert(0, sys.argv[1] if len(sys.argv) > 1 else "/repo")
logging.disable(logging.CRITICAL)
from cloudsync import CloudSync                          # noqa: E402
from cloudsync.providers.mock import MockProvider        # noqa: E402
from cloudsync.event import Event                        # noqa: E402
from cloudsync.types import FILE                         # noqa: E402

l, r = MockProvider(False, True), MockProvider(False, True)
l.connect({"k": "v"}); r.connect({"k": "v"})
cs = CloudSync((l, r), roots=("/local", "/remote"), storage=None, sleep=None)
for _ in range(5):
    for m in (cs.emgrs[0], cs.emgrs[1], cs.smgr):
        m.do()
a = l.create("/local/a", io.BytesIO(b"a"))
b = l.create("/local/b", io.BytesIO(b"b"))
l._cursor = l._latest_cursor                # the provider's own events for a and b are 'missed'
em = cs.emgrs[0]
late = Event(FILE, b.oid, "/local/b", b.hash, True)


class Hooked(list):
    fired = False

    def _fire(self):
        if not Hooked.fired:
            Hooked.fired = True
            em.queue(late, from_walk=True)  # another thread, right after the loop saw the end of the list

    def __iter__(self):                     # old code: for ... in self._queue
        for x in list.__iter__(self):
            yield x
        self._fire()

    def __delitem__(self, k):               # repaired code: del self._queue[:done] after the index loop
        self._fire()
        list.__delitem__(self, k)


em._queue = Hooked([(Event(FILE, a.oid, "/local/a", a.hash, True), True)])
for _ in range(20):
    for m in (cs.emgrs[0], cs.emgrs[1], cs.smgr):
        m.do()
ok = r.info_path("/remote/b") is not None
print("late event", "kept" if ok else "LOST: /remote/b never appears")
sys.exit(0 if ok else 1)
