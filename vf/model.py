"""Pure-Python reference model of the user-visible file trees (DESIGN 1.3) and the
hazard predicates that fence off confirmed engine defect families (DESIGN 1.4).

Paths are root-relative ('/d/a'); '' is the root folder itself.  A tree maps
relpath -> None (folder) | str (content token of a file).
"""
from collections import Counter

import os

NAMES = ("a", "b", "c", "d", "e")
DEFAULT_HAZARDS = ("PATH_REUSE", "DIRMOVE_ISOLATED", "DIRMOVE_TOMB", "XSIDE", "STALE_PATHSTYLE")
MAX_DEPTH = 3


class ModelInvalid(Exception):
    pass


def parent(p):
    return p.rsplit("/", 1)[0]


def ancestors(p):
    """Proper ancestors of p excluding the root ('')."""
    out = []
    p = parent(p)
    while p:
        out.append(p)
        p = parent(p)
    return out


def under(p, prefix):
    """p == prefix or p inside prefix."""
    return p == prefix or p.startswith(prefix + "/")


def depth(p):
    return p.count("/")


class Tree:
    def __init__(self, t=None):
        self.t = dict(t) if t else {}

    def copy(self):
        return Tree(self.t)

    def exists(self, p):
        return p == "" or p in self.t

    def is_dir(self, p):
        return p == "" or (p in self.t and self.t[p] is None)

    def is_file(self, p):
        return p in self.t and self.t[p] is not None

    def dirs(self):
        return [""] + sorted(p for p, v in self.t.items() if v is None)

    def files(self):
        return sorted(p for p, v in self.t.items() if v is not None)

    def subtree(self, p):
        pre = p + "/"
        return sorted(q for q in self.t if q.startswith(pre))

    def check(self, op, *a):
        """Raise ModelInvalid unless op is applicable (mirrors what a real file system permits)."""
        if op in ("create", "mkdir"):
            p = a[0]
            if self.exists(p):
                raise ModelInvalid("%s: %s exists" % (op, p))
            if not self.is_dir(parent(p)):
                raise ModelInvalid("%s: parent of %s missing" % (op, p))
        elif op == "write":
            if not self.is_file(a[0]):
                raise ModelInvalid("write: %s not a file" % a[0])
        elif op == "delete":
            p = a[0]
            if p == "" or not self.exists(p):
                raise ModelInvalid("delete: %s missing" % p)
            if self.is_dir(p) and self.subtree(p):
                raise ModelInvalid("delete: %s not empty" % p)
        elif op == "rmtree":
            if a[0] == "" or not self.exists(a[0]):
                raise ModelInvalid("rmtree: %s missing" % a[0])
        elif op == "rename":
            s, d = a
            if s == "" or not self.exists(s):
                raise ModelInvalid("rename: %s missing" % s)
            if self.exists(d):
                raise ModelInvalid("rename: %s exists" % d)
            if not self.is_dir(parent(d)):
                raise ModelInvalid("rename: parent of %s missing" % d)
            if under(d, s):
                raise ModelInvalid("rename: %s into own subtree" % s)
        else:
            raise ModelInvalid("unknown op %s" % op)

    def apply(self, op, *a):
        self.check(op, *a)
        t = self.t
        if op == "mkdir":
            t[a[0]] = None
        elif op in ("create", "write"):
            t[a[0]] = a[1]
        elif op == "delete":
            del t[a[0]]
        elif op == "rmtree":
            for q in self.subtree(a[0]):
                del t[q]
            del t[a[0]]
        elif op == "rename":
            s, d = a
            moved = [(q, t[q]) for q in [s] + self.subtree(s)]
            for q, _ in moved:
                del t[q]
            for q, v in moved:
                t[d + q[len(s):]] = v


def touch_sets(tree, op, *a):
    """(W, R, Wpre, vacated, occupied) of an op evaluated against `tree` BEFORE it is applied."""
    W, R, Wpre, vac, occ = set(), set(), set(), set(), set()
    if op in ("create", "mkdir"):
        W.add(a[0]); R.update(ancestors(a[0])); occ.add(a[0])
    elif op == "write":
        W.add(a[0]); R.update(ancestors(a[0]))
    elif op == "delete":
        W.add(a[0]); R.update(ancestors(a[0])); vac.add(a[0])
    elif op == "rmtree":
        sub = tree.subtree(a[0])
        W.add(a[0]); W.update(sub); R.update(ancestors(a[0])); Wpre.add(a[0]); vac.add(a[0]); vac.update(sub)
    elif op == "rename":
        s, d = a
        sub = tree.subtree(s)
        W.update((s, d)); R.update(ancestors(s)); R.update(ancestors(d)); vac.add(s); occ.add(d)
        if tree.is_dir(s):
            Wpre.update((s, d))
            W.update(sub); vac.update(sub)
            for q in sub:
                nq = d + q[len(s):]
                W.add(nq); occ.add(nq)
    return W, R, Wpre, vac, occ


class Window:
    def __init__(self):
        self.W = [set(), set()]
        self.R = [set(), set()]
        self.Wpre = [set(), set()]
        self.vac = [set(), set()]
        self.vac_type = [{}, {}]    # vacated path -> 'dir' | 'file' (type of the object that left it)
        self.reuses = 0             # how many ops of this window occupied a path vacated in this window
        self.reused = set()         # those paths
        self.dirmoves = []          # (side, old, new)
        self.nops = [0, 0]
        self.dirty = set()          # objects created or written in this window (create/mkdir/write/rename destinations)
        self.created = [set(), set()]       # per side: paths created (create/mkdir) in this window
        self.dirty_side = [set(), set()]    # per side: objects created / written / renamed-to in this window
        self.consumed = [set(), set()]      # per side: dirty objects at the time that side's event loop last ran in this window
        self.origin = [{}, {}]      # current path -> path the object had at the start of the window (renamed objects only)


class World:
    """Generation-time model of a two-sided case."""

    def __init__(self, path_style=(False, False), hazards=None):
        self.side = [Tree(), Tree()]
        self.exp = Tree()
        self.exp_valid = True
        self.win = Window()
        self.ever_deleted = [set(), set()]
        self.last_gone = set()
        self.path_style = path_style
        self.retired = set()        # paths consumed by conflict gadgets: never touched again
        self.guard_retouch = False  # when set: no op may touch an object created/written earlier in this window
        # narrowed (DESIGN 9.23): a path-style side may rename a folder after it created things at least two levels
        # below it in the same window (VERIF_DIRMOVE_EXP=0 switches the exception off: triage only)
        self.dirmove_after_create = os.environ.get("VERIF_DIRMOVE_EXP", "1") != "0"
        self.stale_strict = False   # C14: STALE_PATHSTYLE counts every object touched in the window, consumed or not
        self.tomb_both = False      # C10: a delete leaves a tombstone on BOTH sides (a faulted engine delete may be half-recorded)
        self.crash_anywhere = False # C07 enum/batch: a crash may hit any window -> no folder rename when a side is path-style
        self.crash_mode = False     # C07: additionally no folder rename after a crash arm when a side is path-style
        self.strict_reuse = False   # when set: PATH_REUSE without the id/id same-type exception
        self.strict_dirmove = False # when set: the id/id exception of DIRMOVE_ISOLATED covers new files only (no mkdir)
        self.ncontent = 0
        self.excluded = Counter()
        if hazards is None:
            hazards = DEFAULT_HAZARDS
            if os.environ.get("VERIF_HAZARDS") is not None:      # triage only (tools/triage.py); never set by ./check
                hazards = [h for h in os.environ["VERIF_HAZARDS"].split(",") if h]
        self.hazards = set(hazards)

    def new_content(self, size=None):
        self.ncontent += 1
        c = "c%d" % self.ncontent
        if size is not None:
            c += "#%d" % size
        return c

    # ---- hazards
    def hazard(self, s, op, *a):
        """Name of the first hazard that rejects op on side s, or None."""
        tree = self.side[s]
        W, R, Wpre, vac, occ = touch_sets(tree, op, *a)
        o = 1 - s
        win = self.win
        touched = W | R
        for r in self.retired:
            for p in W:
                if under(p, r) or under(r, p):
                    return "RETIRED"
            for p in R:
                if under(p, r):
                    return "RETIRED"
        H = self.hazards
        if self.guard_retouch:
            for p in touched:
                for n in win.dirty:
                    if under(p, n):
                        return "CRASH_THEN_TOUCH_NEW" if self.crash_mode else "RETOUCH_IN_WINDOW"
            if self.crash_mode and op == "rename" and tree.is_dir(a[0]) and any(self.path_style):
                return "CRASH_DIRMOVE_PATHSTYLE"
        if self.crash_anywhere and op == "rename" and tree.is_dir(a[0]) and any(self.path_style):
            return "CRASH_DIRMOVE_PATHSTYLE"
        if "PATH_REUSE" in H and win.reused:
            for p in touched:
                for r in win.reused:
                    if under(p, r):
                        return "PATH_REUSE"      # the new occupant of a re-used name is left alone for the rest of the window
        if "PATH_REUSE" in H and occ & win.vac[s]:
            # narrowed (see DESIGN 9): when BOTH sides are id-style, re-using a vacated name with an object of the SAME
            # type is fine; a different type, or any re-use when a side is path-style, is an open finding family
            if any(self.path_style) or win.reuses or self.strict_reuse:
                return "PATH_REUSE"         # at most one (same-type, id/id) name re-use per window
            for p in occ & win.vac[s]:
                if win.vac_type[s].get(p) != self._occ_type(tree, op, a, p):
                    return "PATH_REUSE"
        if "DIRMOVE_ISOLATED" in H:
            for (ms, old, new) in win.dirmoves:
                # narrowed (DESIGN 9): when both sides are id-style, the side that renamed the folder may go on
                # to create new objects inside it under its new name
                allowed_ops = ("create",) if self.strict_dirmove else ("create", "mkdir")
                if not any(self.path_style) and ms == s and op in allowed_ops and under(a[0], new) and a[0] != new:
                    continue
                for p in touched:
                    if under(p, old) or under(p, new):
                        return "DIRMOVE_ISOLATED"
            if op == "rename" and tree.is_dir(a[0]):
                for sd in (0, 1):
                    for p in win.W[sd] | win.R[sd]:
                        if under(p, a[0]) or under(p, a[1]):
                            if self.dirmove_after_create and sd == s and self.path_style[s] and self._only_created_below(s, p, a[0]):
                                continue
                            return "DIRMOVE_ISOLATED"
        # (an object CREATED in this window counts at once: its first path stays behind as a ghost entry -- KF-43b)
        stale = win.dirty_side[s] if self.stale_strict else win.consumed[s]
        if "STALE_PATHSTYLE" in H and self.path_style[s] and not self.stale_strict and vac and op in ("rename", "delete", "rmtree"):
            # KF-43b: the object created in this window is ITSELF renamed away / deleted (or something leaves a folder
            # created in this window); an ancestor folder being renamed with the new object inside is a different
            # matter (DIRMOVE_ISOLATED and its narrowing decide that)
            for c in win.created[s]:
                if under(a[0], c):
                    return "STALE_PATHSTYLE"
        if "STALE_PATHSTYLE" in H and self.path_style[s] and stale:
            # open finding KF-43: on a path-style side an object whose change the engine has already been told about
            # (its side's event loop ran) but has not synced yet must not leave its path before the next quiet point
            # (stale_strict, C14: batches are split, so any later intake step may deliver just that first change)
            for p in vac:
                for c in stale:
                    if under(p, c):
                        return "STALE_PATHSTYLE"
        if "DIRMOVE_TOMB" in H and op == "rename" and tree.is_dir(a[0]) and self.path_style[s]:
            if a[1] in self.ever_deleted[s]:
                return "DIRMOVE_TOMB"
        if "XSIDE" in H:
            if W & (win.W[o] | win.R[o]) or R & win.W[o]:
                return "XSIDE"
            for p in touched:
                for pre in win.Wpre[o]:
                    if under(p, pre):
                        return "XSIDE"
            for pre in Wpre:
                for p in win.W[o] | win.R[o]:
                    if under(p, pre):
                        return "XSIDE"
        return None

    def _only_created_below(self, s, p, folder):
        """p is a path this side created in this window at least two levels below `folder`, or an (untouched) ancestor
        that such a creation merely used as its parent"""
        win = self.win
        deep = [c for c in win.created[s] if under(c, folder) and depth(c) >= depth(folder) + 2]
        if p in win.created[s]:
            return p in deep
        if p in win.W[s]:
            return False
        return any(under(c, p) for c in deep) and all(under(c, folder) is False or c in deep for c in win.created[s])

    @staticmethod
    def _occ_type(tree, op, a, p):
        """type of the object that op puts at path p"""
        if op == "mkdir":
            return "dir"
        if op == "create":
            return "file"
        if op == "rename":
            src = a[0] + p[len(a[1]):]
            return "dir" if tree.is_dir(src) else "file"
        return None

    # ---- applying
    def apply(self, s, op, *a):
        tree = self.side[s]
        W, R, Wpre, vac, occ = touch_sets(tree, op, *a)
        if occ & self.win.vac[s]:
            self.win.reuses += 1
            self.win.reused |= (occ & self.win.vac[s])
        for p in vac:
            self.win.vac_type[s][p] = "dir" if tree.is_dir(p) else "file"
        org = self.win.origin[s]
        if op == "rename":
            moved = [a[0]] + list(tree.subtree(a[0]))
            olds = {q: org.pop(q, q) for q in moved}
            for q, o0 in olds.items():
                org[a[1] + q[len(a[0]):]] = o0
        gone_origins = {org[p] for p in vac if p in org} if op in ("delete", "rmtree") else set()
        tree.apply(op, *a)
        if self.exp_valid:
            try:
                self.exp.apply(op, *a)
            except ModelInvalid:
                self.exp_valid = False
        win = self.win
        win.W[s] |= W
        win.R[s] |= R
        win.Wpre[s] |= Wpre
        win.vac[s] |= vac
        win.nops[s] += 1
        if op in ("create", "mkdir"):
            win.created[s].add(a[0])
        if op in ("create", "mkdir", "write"):
            win.dirty.add(a[0])
            win.dirty_side[s].add(a[0])
        elif op == "rename":
            win.dirty.add(a[1])
            win.dirty_side[s].add(a[1])
        if op in ("delete", "rmtree"):
            # the index may still know a renamed-then-deleted object under the name it had when the window opened
            self.ever_deleted[s] |= vac | gone_origins
            if self.tomb_both:
                self.ever_deleted[1 - s] |= vac | gone_origins
            self.last_gone = vac | gone_origins
        if op == "rename" and Wpre:
            win.dirmoves.append((s, a[0], a[1]))

    def touch(self, s, p):
        """A user op that changes an object without changing the tree modulo case (case-only rename on a
        case-insensitive provider): counts as a write-like touch of p."""
        win = self.win
        win.W[s].add(p)
        win.R[s].update(ancestors(p))
        win.nops[s] += 1
        win.dirty.add(p)
        win.dirty_side[s].add(p)

    def apply_gadget_op(self, s, op, *a):
        """Conflict-gadget op: applied to that side's tree only; every path it touches is retired
        (never touched again), so the merged outcome need not be modelled."""
        tree = self.side[s]
        W, R, Wpre, vac, occ = touch_sets(tree, op, *a)
        tree.apply(op, *a)
        self.retired |= W
        win = self.win
        win.W[s] |= W
        win.R[s] |= R
        win.nops[s] += 1

    def settled_untouched(self, p):
        """p exists on both sides with equal value and nobody touched it (or its ancestors' names) this window."""
        win = self.win
        for sd in (0, 1):
            if p in win.W[sd]:
                return False
            for pre in win.Wpre[sd]:
                if under(p, pre):
                    return False
            for (_s, old, new) in win.dirmoves:
                if under(p, old) or under(p, new):
                    return False
        for r in self.retired:
            if under(p, r) or under(r, p):
                return False
        return self.side[0].exists(p) and self.side[1].exists(p) and self.side[0].t.get(p) == self.side[1].t.get(p)

    def free_new_path(self, p):
        """p is absent on both sides, its parent is a settled untouched folder (or the root), nothing touched p."""
        par = parent(p)
        if par and not (self.settled_untouched(par) and self.side[0].is_dir(par)):
            return False
        if self.side[0].exists(p) or self.side[1].exists(p):
            return False
        win = self.win
        for sd in (0, 1):
            if p in win.W[sd] or p in win.vac[sd] or p in win.R[sd]:
                return False
        for r in self.retired:
            if under(p, r) or under(r, p):
                return False
        return True

    def note_step(self, who):
        """The generator tells the model which engine loop just ran (EL / ER / S)."""
        if who in ("EL", "ER"):
            sd = 0 if who == "EL" else 1
            self.win.consumed[sd] |= self.win.dirty_side[sd]

    def settle(self):
        """Both sides are assumed equal to the merged tree after a quiet settle."""
        if self.exp_valid:
            self.side = [self.exp.copy(), self.exp.copy()]
        self.win = Window()
        if self.guard_retouch == "window":
            self.guard_retouch = False

    # ---- candidate enumeration
    def new_paths(self, s):
        tree = self.side[s]
        out = []
        for d in tree.dirs():
            if depth(d) >= MAX_DEPTH:
                continue
            for n in NAMES:
                p = d + "/" + n
                if not tree.exists(p):
                    out.append(p)
        return out

    def candidates(self, s, kind):
        """All model-valid candidate ops of `kind` on side s (before hazards)."""
        tree = self.side[s]
        out = []
        if kind == "create":
            out = [("create", p) for p in self.new_paths(s)]
        elif kind == "mkdir":
            out = [("mkdir", p) for p in self.new_paths(s) if depth(p) <= MAX_DEPTH - 1]
        elif kind == "write":
            out = [("write", p) for p in tree.files()]
        elif kind == "delete":
            out = [("delete", p) for p in tree.files()]
            out += [("delete", p) for p in tree.dirs() if p and not tree.subtree(p)]
        elif kind == "rmtree":
            out = [("rmtree", p) for p in tree.dirs() if p and tree.subtree(p)]
        elif kind == "rename_file":
            news = self.new_paths(s)
            out = [("rename", f, d) for f in tree.files() for d in news]
        elif kind == "rename_dir":
            news = self.new_paths(s)
            for f in tree.dirs():
                if not f:
                    continue
                h = max([depth(q) for q in tree.subtree(f)] + [depth(f)]) - depth(f)
                for d in news:
                    if under(d, f) or depth(d) + h > MAX_DEPTH:
                        continue
                    out.append(("rename", f, d))
        return out

    def allowed(self, s, kind):
        ok = []
        for c in self.candidates(s, kind):
            h = self.hazard(s, *c)
            if h is None:
                ok.append(c)
            else:
                self.excluded[h] += 1
        return ok
