"""C14  Events are hints: duplicated, delayed, reordered, replayed events change nothing.

Metamorphic: every generated history is executed twice with the same user ops and the same step schedule --
once with prompt in-order delivery, once through the `Mangler` (a wrapper around provider.events() with its own
per-event cursor, robust to the EventManager abandoning the generator after one item).
"""
from .. import shims  # noqa: F401  (must precede any cloudsync import)
from collections import Counter, deque

from cloudsync.event import Event
from cloudsync.types import FILE, DIRECTORY

from ..core import ok, violation
from ..gen import draw_cfg, gen_history, envelope_ok
from ..hist import HistoryRun, Stop
from ..engine import InvalidTrace
from .. import oracles as O

ID = "C14"
LEVEL = "exploration"
RULE = ("Hypothesis-generated envelope histories (one-sided or two-sided disjoint, 4 id/path flavours) run twice from "
        "the same trace: clean delivery vs. mangled delivery driven by a generated script (duplicate an event 2-3x, "
        "deliver a second copy later, split batches into singletons, on id-style sides hold events back and release "
        "them later in reversed order, inject id-less events and events for objects that never existed / have "
        "vanished, interleave cs.walk() replays of either side; on id-style sides also list the tree now and hand that "
        "listing to the engine later, as stale walk events).  Oracle: final quiet trees of the mangled run == "
        "those of the clean run == expected, no '.conflicted'; per destination path the mangled run issues no more "
        "create/upload/delete calls than the clean run; injected id-less/vanished events cause no provider mutation.  "
        "Non-trivial = >=1 event actually duplicated/delayed/reordered/injected and delivered while its side had "
        "pending work; distinct = distinct trace digest.")
ASSUMPTIONS = [
    "mock providers; reordering/delaying is applied to id-style sides only, as the statement says; path-style sides get duplicates, singleton batches, walks and injections",
    "envelope hazards PATH_REUSE, DIRMOVE_ISOLATED, DIRMOVE_TOMB, XSIDE as for C03/C04",
    "LATE_WALK_AFTER_DELETE: a tree listing taken earlier is not handed to the engine after a user deleted something in between (open finding KF-48: the stale 'exists' events resurrect the deleted objects on the other side)",
    "STALE_PATHSTYLE is strict here (every object touched in the window counts, consumed or not): batches are split into single deliveries",
    "LATE_DUP_PATHSTYLE: a stale second copy of an event (delivered after later events) is generated for id-style sides only; path-style sides get immediate duplicates",
    "the id/id exception of DIRMOVE_ISOLATED (create inside a folder renamed in the same window) covers new files only here (open finding KF-34: a folder-rename event delivered after the event of a sub-folder made under the new name leaves a stale folder)",
    "WALK_PATHSTYLE_BUSY: a walk replay of a path-style side is generated at quiet points only (open finding KF-32: a walk that overtakes pending rename events of a path-style side leaves a stale copy)",
    "held-back events are always released before quiet is evaluated (an event that is never delivered is outside the statement)",
]


def budget(tier):
    q = tier == "quick"
    return [{"workers": 16, "examples": 170 if q else 5000},
            {"part": "reorder", "workers": 16, "examples": 90 if q else 3000}]


def gen(d, tier):
    cfg = draw_cfg(d)
    two = d.bool()
    sides = (0, 1) if two else (d.int(0, 1),)
    if not two:
        cfg["origin"] = sides[0]

    def extra(d, world, acts):
        k = d.weighted((("walk", 2), ("inject", 2), ("walk_late", 2)))
        if k == "walk_late":
            # id-stable side only: list the tree now (what CloudSync.walk does), hand the listing to the engine LATER
            pend = world.__dict__.setdefault("snap_pending", {})
            ids = [sd for sd in (0, 1) if not world.path_style[sd]]
            if not ids:
                return
            ws = d.choice(ids)
            if ws in pend:
                del pend[ws]
                if _deleted_since_snap(acts, ws):
                    # hazard LATE_WALK_AFTER_DELETE (open finding KF-48): a stale listing is not delivered after
                    # something was deleted since it was taken
                    world.excluded["LATE_WALK_AFTER_DELETE"] += 1
                else:
                    acts.append(["walk_late", ws])
            else:
                pend[ws] = True
                acts.append(["walk_snap", ws])
        elif k == "walk":
            ws = d.int(0, 1)
            import os
            if world.path_style[ws] and (not acts or acts[-1][0] != "settle") and os.environ.get("VERIF_FHAZARDS") != "":
                # hazard WALK_PATHSTYLE_BUSY (open finding KF-32): a walk replay of a path-style side is only
                # generated at a quiet point
                world.excluded["WALK_PATHSTYLE_BUSY"] += 1
                acts.append(["settle"])
                world.settle()
            acts.append(["walk", ws])
        else:
            acts.append(["inject", d.int(0, 1), d.choice(("noid", "never_existed", "noid_dir_delete"))])
    mode = d.choice(("imm_dups", "dups", "mixed"))
    cfg["mode"] = mode
    acts, world = gen_history(d, cfg, sides=sides, n_ops=(3, 8) if tier == "quick" else (3, 14), with_base=True,
                              w_extra=2 if mode == "mixed" else 0, extra=extra, world_init=_strict)
    for ws in sorted(world.__dict__.get("snap_pending", {})):
        if _deleted_since_snap(acts, ws):
            world.excluded["LATE_WALK_AFTER_DELETE"] += 1
            continue
        acts.append(["walk_late", ws])
        acts.append(["settle"])
    script = [d.int(0, 7) for _ in range(d.int(4, 24))]
    return {"cfg": cfg, "acts": acts, "script": script, "meta": {"excluded": dict(world.excluded)}}


def _deleted_since_snap(acts, ws):
    for a in reversed(acts):
        if a[0] == "walk_snap" and a[1] == ws:
            return False
        if a[0] == "u" and a[2] in ("delete", "rmtree"):
            return True
    return False


def _strict(world):
    # under delayed / reordered delivery, making a FOLDER inside a folder renamed in the same window is an open
    # finding (KF-34) even when both sides are id-style; new files inside it are fine
    world.strict_dirmove = True
    # event batches are split into single deliveries: an intake step may hand over only the FIRST of two changes to one
    # object, so the KF-43 fence (path-style side: object leaves its path while an earlier change of it is known but
    # unsynced) has to cover every object touched in the window
    world.stale_strict = True


def in_domain(trace):
    cfg = trace["cfg"]
    dirty = False
    for a in trace["acts"]:
        if a[0] == "settle":
            dirty = False
        elif a[0] in ("u", "gadget"):
            dirty = True
        elif a[0] == "walk" and dirty and cfg["LR"[a[1]]] == "path":
            return False
    if any(a[0] in ("walk_snap", "walk_late") and cfg["LR"[a[1]]] == "path" for a in trace["acts"]):
        return False
    for i, a in enumerate(trace["acts"]):
        if a[0] == "walk_late" and _deleted_since_snap(trace["acts"][:i], a[1]):
            return False
    acts = [a for a in trace["acts"] if a[0] not in ("walk", "inject", "walk_snap", "walk_late")]
    sides = (0, 1) if "origin" not in trace["cfg"] else (trace["cfg"]["origin"],)
    return envelope_ok(dict(trace, acts=acts), sides=sides, world_init=_strict)


class Mangler:
    """Script-driven delivery.  One script entry per raw event (cyclic) decides (copies now, delay, late copy):
         0,1,7 deliver once now      2 / 3 deliver 2x / 3x now      4 deliver now + one more copy some calls later
         5 / 6 deliver late: the event waits DELAYS[...] intake calls of its side (id-style sides only; a later
               event with a shorter delay overtakes it = reordering).  On path-style sides 5 -> once, 6 -> twice.
       Odd-numbered intake calls hand over a single event only (singleton batches).
       `flush` (set while quiet is being evaluated) is never needed for release: waiting events count as pending,
       so the engine keeps being stepped until every one of them has been delivered."""
    DELAYS = (1, 2, 3, 6, 15)

    def __init__(self, script, id_style):
        self.script = list(script) or [0]
        self.pos = 0
        self.id_style = id_style        # per side: may events be delayed / reordered?
        self.id_style_real = id_style
        self.out = [deque(), deque()]
        self.waiting = [[], []]         # [due_call, seq, event, label]
        self.calls = [0, 0]
        self.seq = 0
        self.flush = False
        self.stats = Counter()
        self.fence_late = True          # LATE_DUP_PATHSTYLE: no stale second copy on path-style sides
        self.no_single = False

    def _next(self):
        v = self.script[self.pos % len(self.script)]
        self.pos += 1
        return v

    def inject(self, side, ev):
        self.out[side].append(ev)
        self.stats["injected"] += 1

    def _wait(self, side, ev, label):
        d = self.DELAYS[self._next() % len(self.DELAYS)]
        self.seq += 1
        self.waiting[side].append([self.calls[side] + d, self.seq, ev, label])

    def __call__(self, case, prov, orig):
        side = prov._vf_side
        self.calls[side] += 1
        raw = list(orig(prov))                  # our own cursor: take everything the provider has
        out = self.out[side]
        due = sorted([w for w in self.waiting[side] if w[0] <= self.calls[side]], key=lambda w: (w[0], -w[1]))
        for w in due:
            self.waiting[side].remove(w)
            out.append(w[2])
            self.stats[w[3]] += 1
        for ev in raw:
            dec = self._next()
            if dec in (2, 3):
                out.extend([ev] * dec)
                self.stats["duplicated"] += 1
            elif dec == 4 and (self.id_style_real[side] or not self.fence_late):
                out.append(ev)
                self._wait(side, ev, "late_copy")
            elif dec in (5, 6) and self.id_style[side]:
                self._wait(side, ev, "delivered_late")
                self.stats["held"] += 1
            elif dec == 6:
                out.extend([ev, ev])
                self.stats["duplicated"] += 1
            else:
                out.append(ev)
        single = self.calls[side] % 2 == 1 and not self.no_single
        return self._drain(side, single)

    def _drain(self, side, single):
        out = self.out[side]
        n = 0
        while out:
            ev = out.popleft()          # popped only when actually handed over: robust to generator abandonment
            n += 1
            yield ev
            if single and n >= 1:
                self.stats["singleton_batches"] += 1
                return

    def pending(self, side):
        return bool(self.out[side] or self.waiting[side])


class Run(HistoryRun):
    def __init__(self, trace, mangle):
        super().__init__(trace)
        self.mangle = mangle
        self.m = None
        self.busy_when_mangled = False
        self.watch = None
        self.watched = 0
        if mangle and self.case is not None:
            cfg = trace["cfg"]
            mode = cfg.get("mode")
            real = (cfg["L"] == "id", cfg["R"] == "id")
            self.m = Mangler(trace.get("script", [0]), real if mode == "mixed" else (False, False))
            self.m.id_style_real = real
            if mode == "imm_dups":      # immediate duplicates only: event timing identical to the clean run
                self.m.no_single = True
                self.m.script = [x if x in (0, 1, 2, 3, 7) else 2 for x in self.m.script]
            if "fence_late" in cfg:
                self.m.fence_late = bool(cfg["fence_late"])
            import os
            if os.environ.get("VERIF_FHAZARDS") == "":      # triage only; ./check unsets it
                self.m.fence_late = False
            self.case.event_mangler = self.m
            case = self.case
            orig_quiet = case.quiet

            def quiet():
                # an event that is still waiting to be delivered is pending work
                if any(self.m.pending(s) for s in (0, 1)):
                    return False
                r = orig_quiet()            # (its busy probe may pull new events into the waiting list)
                if any(self.m.pending(s) for s in (0, 1)):
                    return False
                return r
            case.quiet = quiet

    def _watch_if_quiet(self, what):
        """If the engine is quiet right now, whatever redundant information is fed in next must cause no
        provider mutation at all until users act again."""
        try:
            q = self.case.quiet()
        except Exception:
            q = False
        if q:
            self.watch = {"what": what, "calls_at": len(self.case.calls), "user_ops_at": self.stats["user_ops"]}

    def special(self, act):
        case = self.case
        if act[0] in ("walk", "inject") and (self.mangle or act[0] == "walk"):
            self._watch_if_quiet(act)
        if act[0] == "walk":
            if case.cs.emgrs[act[1]]._root_validated:      # walk needs a validated root; harmless no-op otherwise
                case.in_engine = True
                try:
                    case.cs.walk(act[1])
                finally:
                    case.in_engine = False
            return
        if act[0] == "walk_snap":
            if self.mangle:
                prov = case.prov[act[1]]
                self.snaps = getattr(self, "snaps", {})
                self.snaps[act[1]] = list(prov.walk(case.roots[act[1]]))
            return
        if act[0] == "walk_late":
            snap = getattr(self, "snaps", {}).pop(act[1], None)
            if self.mangle and snap is not None and case.cs.emgrs[act[1]]._root_validated:
                self._watch_if_quiet(act)
                for ev in snap:
                    case.cs.emgrs[act[1]].queue(ev, from_walk=True)
                self.m.stats["late_walk_events"] = self.m.stats.get("late_walk_events", 0) + len(snap)
            return
        if act[0] == "inject":
            if not self.mangle:
                return
            side, kind = act[1], act[2]
            prov = case.prov[side]
            if kind == "noid":
                ev = Event(FILE, None, case.abspath(side, "/ghost"), None, True)
            elif kind == "noid_dir_delete":
                ev = Event(DIRECTORY, None, case.abspath(side, "/no-such-dir"), None, False)
            else:
                oid = case.abspath(side, "/never-existed") if prov.oid_is_path else "o99999"
                ev = Event(FILE, oid, case.abspath(side, "/never-existed") if prov.oid_is_path else None, None, True)
            self.m.inject(side, ev)
            return
        raise InvalidTrace("unknown action %r" % (act,))

    def after_step(self, who):
        e = O.escaped(self.case)
        if e:
            raise Stop(violation("exception_escaped", e))
        if self.m is not None and not self.busy_when_mangled:
            if sum(self.m.stats.values()) and self.case.cs.state.changeset_len:
                self.busy_when_mangled = True
        w = self.watch
        if w is not None:
            if self.stats["user_ops"] != w["user_ops_at"]:
                self.watch = None
            else:
                bad = [c for c in self.case.mutations(w["calls_at"]) if not c["err"]]
                if bad:
                    raise Stop(violation("redundant_info_ignored", "%r fed to a quiet engine caused %s" % (
                        w["what"], [(c["side"], c["name"], c["path"], c["dst"]) for c in bad[:4]])))

    def at_quiet(self, rounds, final):
        if self.watch is not None:
            self.watched += 1
            self.watch = None
        if self.exp is None:
            return
        e = O.equals_expected(self.case, self.exp)
        if e:
            which = "mangled" if self.mangle else "clean"
            raise Stop(violation("same_outcome" if self.mangle else "clean_run_baseline", "[%s delivery] %s" % (which, e)))

    def finish(self):
        self.final = (self.case.snap(0), self.case.snap(1))
        self.transfers = Counter()
        for c in self.case.calls:
            if c["name"] in ("create", "upload", "delete") and not c["err"]:
                self.transfers[(c["side"], c["name"] if c["name"] == "delete" else "xfer", c["path"])] += 1
        return ok()


def run(trace):
    if not trace["acts"] or trace["acts"][-1][0] != "settle":
        from ..core import invalid
        return invalid("the comparison is defined at a quiet point: the trace must end with a settle")
    clean = Run(trace, mangle=False)
    o1 = clean.execute()
    if o1["status"] != "ok":
        return o1
    mang = Run(trace, mangle=True)
    o2 = mang.execute()
    if o2["status"] != "ok":
        if mang.m is not None:
            o2["detail"] += "  [mangling done: %s]" % dict(mang.m.stats)
        return o2
    if mang.final != clean.final:
        d = O.diff_trees(clean.final[0], mang.final[0], "clean", "mangled") + O.diff_trees(clean.final[1], mang.final[1], "clean", "mangled")
        return violation("same_outcome", "final trees differ between clean and mangled delivery: %s" % d[:4])
    extra = {k: (v, clean.transfers.get(k, 0)) for k, v in mang.transfers.items() if v > clean.transfers.get(k, 0)}
    if extra and trace["cfg"].get("mode") == "imm_dups":
        return violation("no_spurious_transfer", "mangled delivery caused more transfers/deletions than clean delivery (mangled, clean): %s" % dict(list(extra.items())[:4]))
    st = mang.m.stats
    cfg = trace["cfg"]
    labs = ["flavour:%s/%s" % (cfg["L"], cfg["R"]), "mode:" + str(cfg.get("mode"))] + ["mangle:" + k for k, v in st.items() if v]
    if mang.watched or clean.watched:
        labs.append("redundant_info_at_quiet")
    if any(a[0] == "walk" for a in trace["acts"]):
        labs.append("mangle:walk")
    nt = mang.busy_when_mangled and bool(sum(st.values()))
    return ok(nontrivial=nt, labels=labs)


# ----------------------------------------------------------------------------- directed part: related objects, late events
SCENARIOS = {
    "A_create_in_renamed_folder": [("rename", "/p", "/q"), ("create", "/q/n", "n1")],
    "C_new_folder_with_files": [("mkdir", "/m"), ("create", "/m/x", "x1"), ("create", "/m/y", "y1")],
    "D_move_then_edit": [("rename", "/p/f", "/h"), ("write", "/h", "h1")],
    "E_create_then_move": [("create", "/n", "n1"), ("rename", "/n", "/k/n")],
    "F_move_then_delete": [("rename", "/g", "/k/g"), ("delete", "/k/g")],
    "G_edit_then_move": [("write", "/g", "g1"), ("rename", "/g", "/k/g2")],
    "H_nested_new_folders": [("mkdir", "/m"), ("mkdir", "/m/m2"), ("create", "/m/m2/x", "x1")],
}
RE_BASE = [("mkdir", "/p"), ("create", "/p/f", "f0"), ("create", "/g", "g0"), ("mkdir", "/k")]


def gen_reorder(d, tier):
    from ..model import World, ModelInvalid
    flav = d.choice((("id", "id"), ("id", "path"), ("path", "id")))
    origin = 0 if flav[0] == "id" else 1
    if flav == ("id", "id"):
        origin = d.int(0, 1)
    cfg = {"L": flav[0], "R": flav[1], "salt": d.int(0, 7), "origin": origin, "mode": "mixed"}
    world = World(path_style=(flav[0] == "path", flav[1] == "path"))
    _strict(world)
    acts = []
    for op in RE_BASE:
        acts.append(["u", origin] + list(op))
        world.apply(origin, *op)
    acts.append(["settle"])
    world.settle()
    names = list(SCENARIOS)
    used = []
    for _ in range(d.int(1, 2)):
        sc = d.choice(names)
        names.remove(sc)
        for op in SCENARIOS[sc]:
            try:
                world.side[origin].check(*op)
            except ModelInvalid:
                break
            h = world.hazard(origin, *op)
            if h is not None:
                world.excluded[h] += 1
                break
            acts.append(["u", origin] + list(op))
            world.apply(origin, *op)
            if d.chance(1, 3):
                acts.append(["step", d.choice(("EL", "ER", "S"))])
        used.append(sc)
    acts.append(["settle"])
    script = [d.choice((5, 6, 5, 0, 4, 2)) for _ in range(d.int(3, 12))]
    return {"cfg": cfg, "acts": acts, "script": script, "scenario": used, "meta": {"excluded": dict(world.excluded)}}


def run_reorder(trace):
    out = run(trace)
    if out["status"] == "ok":
        out["labels"] = out.get("labels", []) + ["scenario:" + x for x in trace.get("scenario", [])]
    return out


PARTS = {"reorder": (gen_reorder, run_reorder)}
