"""Small shared helpers (outcomes, digests, JSON)."""
import json
import hashlib
import importlib


def jdump(obj):
    return json.dumps(obj, sort_keys=True, default=_jdefault)


def _jdefault(o):
    if isinstance(o, bytes):
        return {"__bytes__": o.hex()}
    if isinstance(o, (set, frozenset)):
        return sorted(o)
    if isinstance(o, tuple):
        return list(o)
    return repr(o)


def digest(trace):
    body = {k: v for k, v in trace.items() if k != "meta"} if isinstance(trace, dict) else trace
    return hashlib.blake2b(jdump(body).encode(), digest_size=8).hexdigest()


def load_prop(pid):
    return importlib.import_module("vf.props." + pid.lower())


def ok(**kw):
    d = {"status": "ok", "clause": None, "detail": "", "nontrivial": False, "labels": []}
    d.update(kw)
    return d


def violation(clause, detail, **kw):
    d = {"status": "violation", "clause": clause, "detail": detail, "nontrivial": True, "labels": []}
    d.update(kw)
    return d


def invalid(detail=""):
    return {"status": "invalid", "clause": None, "detail": detail, "nontrivial": False, "labels": []}


class CaseHang(BaseException):
    """raised by the runner's wall-clock watchdog (vf.run._run_guarded)"""


WATCHDOG = {"fired": False}
