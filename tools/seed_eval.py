"""Confirm a sub-agent's seeded change and run our checks against it.
usage: seed_eval.py <worktree> <seed-name> <ID>[,<ID>..] [tier] [--skip-suite]
 1. in the worktree: demo fails with the patch, passes without; suite comparison vs /tmp/passing-tests-before.txt
 2. copy SEED/ to /verif/seeded/<seed-name>/
 3. apply patch to /repo, run ./check <ID> <tier> for each id, revert /repo."""
import sys, os, subprocess, json, shutil, tempfile, xml.etree.ElementTree as ET
wt, name, ids = sys.argv[1:4]
tier = sys.argv[4] if len(sys.argv) > 4 and not sys.argv[4].startswith("--") else "quick"
skip_suite = "--skip-suite" in sys.argv
def sh(cmd, **kw):
    return subprocess.run(cmd, shell=True, capture_output=True, text=True, **kw)
seed = os.path.join(wt, "SEED")
patch = os.path.join(seed, "patch.diff")
# make sure patch reflects the worktree state
r = sh("git -C %s diff -- cloudsync" % wt)
if r.stdout.strip():
    open(patch, "w").write(r.stdout)
res = {}
r1 = sh("cd %s && /venv/bin/python SEED/demo.py" % wt); res["demo_with_patch_rc"] = r1.returncode
sh("git -C %s apply -R SEED/patch.diff" % wt)
r2 = sh("cd %s && /venv/bin/python SEED/demo.py" % wt); res["demo_without_patch_rc"] = r2.returncode
sh("git -C %s apply SEED/patch.diff" % wt)
if not skip_suite:
    out = tempfile.mktemp(suffix=".xml")
    sh("cd %s && /venv/bin/python -m pytest -ra -q -p no:cacheprovider --timeout=900 --continue-on-collection-errors --junitxml=%s" % (wt, out))
    passed = set()
    for tc in ET.parse(out).iter("testcase"):
        if not any(c.tag in ("failure", "error", "skipped") for c in tc):
            passed.add(tc.get("classname") + "::" + tc.get("name"))
    os.unlink(out)
    before = set(open("/tmp/passing-tests-before.txt").read().split("\n")) - {""}
    base = set(json.load(open("/root/.vp/BASELINE.json"))["stable_pass"])
    res["suite_missing_vs_before"] = sorted(before - passed)
    res["baseline150_missing"] = sorted(base - passed)
print(json.dumps(res, indent=1))
dst = os.path.join("/verif/seeded", name)
os.makedirs(dst, exist_ok=True)
for f in os.listdir(seed):
    if os.path.isfile(os.path.join(seed, f)):
        shutil.copy(os.path.join(seed, f), dst)
# the checks are pointed (VERIF_REPO) at a scratch worktree of /repo's HEAD with the patch applied, so that /repo itself
# stays untouched while background runs may be using it
run_wt = tempfile.mkdtemp(prefix="seedrun-")
os.rmdir(run_wt)
assert sh("git -C /repo worktree add -q --detach %s HEAD" % run_wt).returncode == 0
a = sh("git -C %s apply %s" % (run_wt, patch))
assert a.returncode == 0, a.stderr
checks = {}
try:
    for i in ids.split(","):
        r = sh("VERIF_REPO=%s /verif/check %s %s" % (run_wt, i, tier))
        lines = [l for l in r.stdout.splitlines() if not l.startswith("KNOWN-FINDING")]
        checks[i] = {"rc": r.returncode, "tail": lines[-4:]}
        print("[%s] rc=%d  %s" % (i, r.returncode, " | ".join(l[:200] for l in lines[-4:])))
        if r.returncode == 2:
            print(r.stderr[-1500:])
finally:
    sh("git -C /repo worktree remove --force %s" % run_wt)
    sh("rm -rf /verif/replays/found")
res["checks"] = checks
m = os.path.join(dst, "meta.json")
try:
    meta = json.load(open(m))
except Exception:
    meta = {}
meta["confirmed_by_main"] = res
json.dump(meta, open(m, "w"), indent=1)
