"""C16  Offline-runnable providers honour the provider contract the engine relies on.

Generated API call sequences are applied to a real provider (mock: id/path x case-sensitive/-insensitive;
FileSystemProvider on a scratch directory) and to a reference file-tree model; results, error classes, ids,
hashes and the event stream are compared.
"""
from .. import shims  # noqa: F401  (must precede any cloudsync import)
import io
import os
import time
import shutil
import tempfile

import cloudsync.exceptions as ex
from cloudsync.providers.mock import MockProvider
from cloudsync.types import OType
from cloudsync.event import EventManager
from cloudsync.sync.state import SyncState

from ..core import ok, violation, invalid
from ..engine import blob

ID = "C16"
LEVEL = "exploration"
RULE = ("Hypothesis-generated sequences (<= 14 calls quick / 30 thorough) of create/mkdir/rename/upload/delete/download/"
        "info_path/info_oid/exists/listdir with arguments from the live model, stale ids, missing paths and (on "
        "case-insensitive flavours) case variants; file sizes 0, 1, <1 KiB, 1-2 KiB, >2 KiB.  Providers: MockProvider "
        "{id,path} x {case-sensitive, case-insensitive} and FileSystemProvider on a scratch directory.  Oracle per call: "
        "result or exception class as documented (not found / exists / not empty / name error; delete of a missing id "
        "is a no-op); after every call info_path/info_oid/exists/listdir/download agree with the reference tree and "
        "with each other; id stability across rename (id-style: unchanged incl. children; path-style: id == normalised "
        "full path); info.hash == hash_data(bytes) and equal hash <=> equal bytes over all files of the case; after the "
        "sequence the event stream contains, for every successful mutation, an event with the right id and existence.  "
        "Part 'identity': connect with credentials of another identity is refused; one provider in two EventManagers "
        "raises.  Non-trivial = >=1 rename of a non-empty folder, or >=1 file > 2 KiB, or >=1 call expected to fail.")
ASSUMPTIONS = [
    "renaming a folder into its own subtree is not generated (no file system permits it; the mock would accept it)",
    "mock path-style + case-insensitive: only lower-case names are generated (open finding KF-22: objects whose path has upper-case letters are stored under two keys)",
    "filesystem events arrive asynchronously (inotify): the stream is polled for up to 5 s; a miss re-runs the whole case up to twice (10 s / 20 s poll, 30 ms pause between calls) before it counts",
]
FLAVS = ("mock_id_cs", "mock_path_cs", "mock_id_ci", "mock_path_ci", "fs")
NAMES = ("a", "b", "A", "x.y")
SIZES = (0, 1, 700, 1500, 3000)


def budget(tier):
    q = tier == "quick"
    return [{"workers": 16, "examples": 220 if q else 8000},
            {"part": "identity", "workers": 2, "examples": 30 if q else 300}]


def gen(d, tier):
    flav = d.weighted((("mock_id_cs", 3), ("mock_path_cs", 3), ("mock_id_ci", 2), ("mock_path_ci", 2), ("fs", 2)))
    ci = flav.endswith("_ci")
    names = tuple(n for n in NAMES if n.lower() == n) if flav == "mock_path_ci" else NAMES
    tree = {"": "dir"}          # model for generation only: key path (lower for ci) -> type
    disp = {"": ""}

    def key(p):
        return p.lower() if ci else p
    acts = []
    n = d.int(3, 14 if tier == "quick" else 30)
    nc = [0]

    def content():
        nc[0] += 1
        return "k%d#%d" % (nc[0], d.choice(SIZES)) if d.chance(1, 2) else "k%d" % nc[0]

    def existing(kind=None):
        c = sorted(p for p, t in tree.items() if p and (kind is None or t == kind))
        return d.choice(c) if c else None

    def newpath():
        dirs = sorted(p for p, t in tree.items() if t == "dir" and p.count("/") < 3)
        par = d.choice(dirs)
        return disp[par] + "/" + d.choice(names)

    def variant(p):
        if ci and p and d.chance(1, 3) and flav != "mock_path_ci":
            return p.swapcase()
        return p
    for _ in range(n):
        k = d.weighted((("create", 5), ("mkdir", 4), ("rename", 4), ("upload", 3), ("delete", 3), ("read", 3), ("bad", 2), ("reconnect", 1)))
        if k == "reconnect":
            acts.append(["reconnect"])
            continue
        if k == "create":
            p = newpath() if d.chance(4, 5) else (disp[existing()] if existing() else newpath())
            acts.append(["create", variant(p), content()])
            if key(p) not in tree:
                tree[key(p)] = "file"
                disp[key(p)] = p
        elif k == "mkdir":
            p = newpath() if d.chance(4, 5) else (disp[existing()] if existing() else newpath())
            acts.append(["mkdir", variant(p)])
            if key(p) not in tree:
                tree[key(p)] = "dir"
                disp[key(p)] = p
        elif k == "rename":
            src = existing()
            if src is None:
                continue
            dst = newpath() if d.chance(3, 4) else (disp[existing()] if existing() else newpath())
            if d.chance(1, 3):
                # replacing renames: onto an existing object of the same type (for folders preferably an empty one)
                same = sorted(q for q, t in tree.items() if q and q != src and t == tree[src])
                empty = [q for q in same if tree[q] == "dir" and not any(r.startswith(q + "/") for r in tree)]
                pool = empty if (empty and d.chance(3, 4)) else same
                if pool:
                    dst = disp[d.choice(pool)]
            if key(dst) == src or key(dst).startswith(src + "/"):
                continue
            acts.append(["rename", variant(disp[src]), dst])
            if key(dst) not in tree or (tree[key(dst)] == "dir" == tree[src] and not any(q.startswith(key(dst) + "/") for q in tree)):
                moved = [(q, tree[q]) for q in list(tree) if q == src or q.startswith(src + "/")]
                for q, _t in moved:
                    del tree[q]
                    dq = disp.pop(q)
                    nq = key(dst) + q[len(src):]
                    tree[nq] = _t
                    disp[nq] = dst + dq[len(src):]
        elif k == "upload":
            f = existing()
            if f:
                acts.append(["upload", variant(disp[f]), content()])
        elif k == "delete":
            f = existing()
            if f:
                acts.append(["delete", variant(disp[f])])
                if tree[f] == "file" or not any(q.startswith(f + "/") for q in tree):
                    del tree[f]
                    del disp[f]
        elif k == "read":
            f = existing()
            if f:
                acts.append([d.choice(("download", "listdir")), variant(disp[f])])
        else:
            acts.append([d.choice(("stale_upload", "stale_rename", "stale_delete", "stale_info", "missing_parent_create",
                                   "missing_parent_mkdir", "listdir_missing", "download_missing"))])
    return {"cfg": {"flav": flav}, "acts": acts}


class Ref:
    """Reference file tree: key path -> dict(type, data, oid, path)"""

    def __init__(self, ci):
        self.ci = ci
        self.t = {}
        self.dead = []

    def key(self, p):
        p = p.rstrip("/")
        return p.lower() if self.ci else p

    def get(self, p):
        return self.t.get(self.key(p))

    def parent_state(self, p):
        par = p.rsplit("/", 1)[0]
        if par == "":
            return "dir"
        o = self.get(par)
        return o["type"] if o else None

    def children(self, p):
        pre = self.key(p) + "/"
        return [k for k in self.t if k.startswith(pre)]


def make_provider(flav):
    if flav == "fs":
        from cloudsync.providers.filesystem import FileSystemProvider
        d = tempfile.mkdtemp(prefix="fsprov-", dir=shims.scratch())
        p = FileSystemProvider()
        p.namespace_id = d      # (sets up the observer)
        p.connect({"key": "val"})
        # the inotify watch is registered asynchronously by the observer thread: wait until it demonstrably works
        probe = os.path.join(d, ".probe")
        t0 = time.time()
        seen = False
        while not seen and time.time() - t0 < 5:
            with open(probe, "w") as f:
                f.write("x")
            time.sleep(0.01)
            seen = any(True for _ in p.events())
        os.unlink(probe)
        time.sleep(0.02)
        list(p.events())
        return p, d
    _, style, case = flav.split("_")
    p = MockProvider(style == "path", case == "cs")
    p.connect({"key": "val"})
    return p, None


EXC = {"nf": ex.CloudFileNotFoundError, "exists": ex.CloudFileExistsError, "name": ex.CloudFileNameError}


_ATTEMPT = [0]     # filesystem only: 0 = first run; 1, 2 = re-runs after a missed event (longer poll, paced calls)


def run(trace, _retry=2):
    flav = trace["cfg"]["flav"]
    shims.reset(0)
    prov, scratch = make_provider(flav)
    _ATTEMPT[0] = 2 - _retry
    try:
        out = _run(trace, flav, prov)
    except (InvalidTraceLocal, AssertionError):
        raise
    except Exception as e:
        # whatever a provider call raises that is not one of the documented cloud exceptions (AttributeError, KeyError,
        # TypeError out of the provider's own code ...) is not "the documented error class"
        import traceback
        tb = traceback.extract_tb(e.__traceback__)
        where = next(("%s:%d" % (os.path.basename(f.filename), f.lineno) for f in reversed(tb) if "/cloudsync/" in f.filename), "?")
        if where == "?":
            raise               # an exception of the harness itself stays a harness error
        out = violation("call_result", "a provider call raised an undocumented exception: %r (at %s)" % (e, where))
    finally:
        try:
            prov.disconnect()
        except Exception:
            pass
        if scratch:
            shutil.rmtree(scratch, ignore_errors=True)
    if out["status"] == "violation" and out["clause"] == "events_reported" and flav == "fs" and _retry:
        # a watcher thread that did not get scheduled in time is not an omission by the provider: re-run the whole
        # case (twice at most) with a longer poll and a short pause after every call; a real omission fails all three
        return run(trace, _retry=_retry - 1)
    _ATTEMPT[0] = 0
    return out


class InvalidTraceLocal(Exception):
    pass


def _call(fn, *a):
    try:
        return ("ok", fn(*a))
    except ex.CloudException as e:
        for k, c in EXC.items():
            if isinstance(e, c):
                return (k, e)
        return ("other", e)


def _run(trace, flav, prov):
    ci = flav.endswith("_ci")
    ref = Ref(ci)
    muts = []           # (kind, oid, exists) expected in the event stream
    early = []          # events already pulled from the stream before a disconnect
    flags = {"big": False, "dir_rename": False, "expected_error": False, "replaced_empty_folder": False, "reconnect": False}
    id_style = not prov.oid_is_path
    list(prov.events())     # start from a clean stream

    def norm_oid(path):
        if flav == "fs":
            return prov.normalize_path(prov.join(prov.namespace_id, path))
        return prov.normalize_path(path)

    def expect(i, a, got, want, what=""):
        if got[0] != want:
            return violation("call_result", "call %d %r: expected %s, got %s %r %s" % (i, a, want, got[0], got[1] if got[0] != "ok" else "", what))
        if want != "ok":
            flags["expected_error"] = True
        return None

    for i, a in enumerate(trace["acts"]):
        if flav == "fs" and _ATTEMPT[0]:
            time.sleep(0.03)
        k = a[0]
        if k == "reconnect":
            # what pausing and resuming a sync does to a provider: the stream must go on reporting afterwards
            if flav == "fs":
                # notifications still in flight when the watcher is detached are legitimately not delivered: let the
                # stream catch up with what was done so far before pausing (what was seen is kept for the final check)
                _events(prov, muts, flav, {o["oid"] for o in ref.t.values()}, early)
            prov.disconnect()
            prov.reconnect()
            flags["reconnect"] = True
            continue
        if k == "create":
            p, data = a[1], blob(a[2])
            ps = ref.parent_state(p)
            want = "exists" if ref.get(p) else ("nf" if ps is None else ("exists" if ps == "file" else "ok"))
            got = _call(prov.create, p, io.BytesIO(data))
            v = expect(i, a, got, want)
            if v:
                return v
            if want == "ok":
                info = got[1]
                ref.t[ref.key(p)] = {"type": "file", "data": data, "oid": info.oid, "path": p}
                muts.append(("create", info.oid, True))
                if len(data) > 2048:
                    flags["big"] = True
        elif k == "mkdir":
            p = a[1]
            ps = ref.parent_state(p)
            cur = ref.get(p)
            want = "nf" if ps is None else ("exists" if ps == "file" or (cur and cur["type"] == "file") else "ok")
            got = _call(prov.mkdir, p)
            v = expect(i, a, got, want)
            if v:
                return v
            if want == "ok":
                if cur:
                    if got[1] != cur["oid"]:
                        return violation("call_result", "call %d mkdir of existing folder returned oid %r, folder has %r" % (i, got[1], cur["oid"]))
                else:
                    ref.t[ref.key(p)] = {"type": "dir", "data": None, "oid": got[1], "path": p}
                    muts.append(("mkdir", got[1], True))
        elif k == "rename":
            src, dst = a[1], a[2]
            o = ref.get(src)
            if o is None:
                return invalid("rename source missing in model")
            if ref.key(dst) == ref.key(src) or ref.key(dst).startswith(ref.key(src) + "/"):
                return invalid("rename into own subtree")
            ps = ref.parent_state(dst)
            tgt = ref.get(dst)
            if ps is None:
                want = "nf"
            elif ps == "file":
                want = "exists"
            elif tgt is None:
                want = "ok"
            elif tgt["type"] != o["type"] or tgt["type"] == "file" or ref.children(dst):
                want = "exists"
            else:
                want = "ok"         # empty folder replaced by a folder
            got = _call(prov.rename, o["oid"], dst)
            v = expect(i, a, got, want)
            if v:
                return v
            if want == "ok":
                new_oid = got[1]
                if tgt is not None:
                    ref.dead.append(tgt["oid"])
                    del ref.t[ref.key(dst)]
                    flags["replaced_empty_folder"] = True
                    if id_style:
                        # the replaced (empty) folder stops existing: a mutation the stream has to report under ITS id
                        # (path-style: its id is the path, which the moved folder re-occupies at once)
                        muts.append(("replaced", tgt["oid"], False))
                ks, kd = ref.key(src), ref.key(dst)
                moved = [q for q in list(ref.t) if q == ks or q.startswith(ks + "/")]
                if len(moved) > 1:
                    flags["dir_rename"] = True
                for q in moved:
                    ob = ref.t.pop(q)
                    ob["path"] = dst + ob["path"][len(src):]
                    if id_style:
                        pass
                    else:
                        ref.dead.append(ob["oid"])
                        ob["oid"] = norm_oid(ob["path"])
                    ref.t[kd + q[len(ks):]] = ob
                me = ref.t[kd]
                if id_style and new_oid != o["oid"]:
                    return violation("id_stable", "call %d: id-style rename changed the id %r -> %r" % (i, o["oid"], new_oid))
                if not id_style and new_oid != me["oid"]:
                    return violation("id_is_path", "call %d: path-style rename returned id %r, normalised path is %r" % (i, new_oid, me["oid"]))
                muts.append(("rename", new_oid, True))
        elif k == "upload":
            o = ref.get(a[1])
            if o is None:
                return invalid("upload target missing in model")
            data = blob(a[2])
            want = "exists" if o["type"] == "dir" else "ok"
            got = _call(prov.upload, o["oid"], io.BytesIO(data))
            v = expect(i, a, got, want)
            if v:
                return v
            if want == "ok":
                o["data"] = data
                muts.append(("upload", o["oid"], True))
                if len(data) > 2048:
                    flags["big"] = True
        elif k == "delete":
            o = ref.get(a[1])
            if o is None:
                return invalid("delete target missing in model")
            want = "exists" if o["type"] == "dir" and ref.children(a[1]) else "ok"
            got = _call(prov.delete, o["oid"])
            v = expect(i, a, got, want)
            if v:
                return v
            if want == "ok":
                ref.dead.append(o["oid"])
                del ref.t[ref.key(a[1])]
                muts.append(("delete", o["oid"], False))
        elif k == "download":
            o = ref.get(a[1])
            if o is None:
                return invalid("download target missing in model")
            buf = io.BytesIO()
            got = _call(prov.download, o["oid"], buf)
            v = expect(i, a, got, "exists" if o["type"] == "dir" else "ok")
            if v:
                return v
            if o["type"] == "file" and buf.getvalue() != o["data"]:
                return violation("read_agrees", "call %d: download returned %r, file holds %r" % (i, buf.getvalue()[:20], o["data"][:20]))
        elif k == "listdir":
            o = ref.get(a[1])
            if o is None:
                return invalid("listdir target missing in model")
            got = _call(lambda oid: list(prov.listdir(oid)), o["oid"])
            v = expect(i, a, got, "nf" if o["type"] == "file" else "ok")
            if v:
                return v
        else:
            live = {o["oid"] for o in ref.t.values()}
            deads = [x for x in ref.dead if x not in live]       # a path-style id may have been re-occupied since
            dead = deads[-1] if deads else ("o424242" if id_style else norm_oid("/never/was"))
            if k == "stale_upload":
                v = expect(i, a, _call(prov.upload, dead, io.BytesIO(b"z")), "nf")
            elif k == "stale_rename":
                v = expect(i, a, _call(prov.rename, dead, "/zz-new"), "nf")
            elif k == "stale_delete":
                v = expect(i, a, _call(prov.delete, dead), "ok", "(delete of a missing id is a no-op)")
                flags["expected_error"] = True
            elif k == "stale_info":
                got = _call(prov.info_oid, dead)
                v = None
                if got[0] != "ok" or got[1] is not None or prov.exists_oid(dead):
                    v = violation("read_agrees", "call %d: info_oid/exists_oid of a dead id answered %r" % (i, got[1]))
                flags["expected_error"] = True
            elif k == "missing_parent_create":
                v = expect(i, a, _call(prov.create, "/no-such-dir/f", io.BytesIO(b"z")), "nf")
            elif k == "missing_parent_mkdir":
                v = expect(i, a, _call(prov.mkdir, "/no-such-dir/g"), "nf")
            elif k == "listdir_missing":
                v = expect(i, a, _call(lambda oid: list(prov.listdir(oid)), dead), "nf")
            else:
                v = expect(i, a, _call(prov.download, dead, io.BytesIO()), "nf")
            if v:
                return v
        v = _agree(i, a, prov, ref, id_style, norm_oid, flav)
        if v:
            return v
    v = _events(prov, muts, flav, {o["oid"] for o in ref.t.values()}, early)
    if v:
        return v
    labs = ["flav:" + flav] + [f for f, x in flags.items() if x]
    return ok(nontrivial=any(flags.values()), labels=labs, counters={"calls": len(trace["acts"])})


def _agree(i, a, prov, ref, id_style, norm_oid, flav):
    """reads agree with the reference tree and with each other; hash laws"""
    by_hash = {}
    for kpath, o in ref.t.items():
        ip = prov.info_path(o["path"])
        io_ = prov.info_oid(o["oid"])
        if ip is None or io_ is None:
            return violation("read_agrees", "after call %d %r: %s is in the tree but info_path=%r info_oid=%r" % (i, a, o["path"], ip, io_))
        want_t = OType.DIRECTORY if o["type"] == "dir" else OType.FILE
        if ip.otype != want_t or io_.otype != want_t:
            return violation("read_agrees", "after call %d: type of %s reported %r/%r" % (i, o["path"], ip.otype, io_.otype))
        if ip.oid != o["oid"] or io_.oid != o["oid"]:
            return violation("read_agrees" if id_style else "id_is_path", "after call %d %r: %s has id %r, info_path says %r, info_oid says %r" % (i, a, o["path"], o["oid"], ip.oid, io_.oid))
        if not id_style and o["oid"] != norm_oid(o["path"]):
            return violation("id_is_path", "after call %d: id %r of %s is not its normalised path %r" % (i, o["oid"], o["path"], norm_oid(o["path"])))
        if not prov.paths_match(io_.path, o["path"]):
            return violation("read_agrees", "after call %d: info_oid(%r).path = %r, tree says %r" % (i, o["oid"], io_.path, o["path"]))
        if not prov.exists_path(o["path"]) or not prov.exists_oid(o["oid"]):
            return violation("read_agrees", "after call %d: exists_* false for %s" % (i, o["path"]))
        if o["type"] == "file":
            h = prov.hash_data(io.BytesIO(o["data"]))
            if ip.hash != h or io_.hash != h:
                return violation("hash_law", "after call %d %r: info hash of %s (%d bytes) differs from hash_data of the same bytes" % (i, a, o["path"], len(o["data"])))
            if prov.hash_oid(o["oid"]) != h:
                return violation("hash_law", "after call %d: hash_oid of %s differs from hash_data of the same bytes" % (i, o["path"]))
            prev = by_hash.setdefault(repr(h), o["data"])
            if prev != o["data"]:
                return violation("hash_law", "after call %d: different bytes, equal hash (%r / %r)" % (i, prev[:12], o["data"][:12]))
            if ip.size != len(o["data"]):
                return violation("read_agrees", "after call %d: size of %s reported %r, holds %d bytes" % (i, o["path"], ip.size, len(o["data"])))
        else:
            kids = sorted(ref.t[q]["oid"] for q in ref.children(o["path"]) if "/" not in q[len(kpath) + 1:])
            got = sorted(x.oid for x in prov.listdir(o["oid"]))
            if kids != got:
                return violation("read_agrees", "after call %d %r: listdir(%s) ids %r, tree says %r" % (i, a, o["path"], got, kids))
    root = prov.info_path("/")
    if root is not None:
        kids = sorted(o["oid"] for q, o in ref.t.items() if q.count("/") == 1)
        got = sorted(x.oid for x in prov.listdir(root.oid))
        if kids != got:
            return violation("read_agrees", "after call %d %r: listdir(/) ids %r, tree says %r" % (i, a, got, kids))
    for dead in ref.dead[-3:]:
        if dead in [o["oid"] for o in ref.t.values()]:
            continue
        if prov.info_oid(dead) is not None or prov.exists_oid(dead):
            return violation("read_agrees", "after call %d %r: dead id %r still answers info_oid/exists_oid" % (i, a, dead))
    return None


def _events(prov, muts, flav, final_live, seen=None):
    want = [(oid, exists) for _k, oid, exists in muts]
    seen = [] if seen is None else seen
    deadline = time.time() + ((5.0, 10.0, 20.0)[_ATTEMPT[0]] if flav == "fs" else 0)

    def satisfied(w):
        if w in seen:
            return True
        # an asynchronous provider stats the object when it converts the notification: the existence it reports is
        # the one at that later moment, so for the filesystem the object's final existence is accepted as well
        return flav == "fs" and (w[0], w[0] in final_live) in seen
    while True:
        for e in prov.events():
            seen.append((e.oid, bool(e.exists)))
        missing = [w for w in want if not satisfied(w)]
        if not missing or time.time() >= deadline:
            break
        time.sleep(0.02)
    if missing:
        return violation("events_reported", "no event (id, exists) for %r among %d events; e.g. seen %r" % (missing[:3], len(seen), seen[:6]))
    return None


# ----------------------------------------------------------------------------- identity part
class _TwoFaced(MockProvider):
    def connect_impl(self, creds):
        if not creds:
            raise ex.CloudTokenError()
        return "id-" + str(creds.get("user"))


def gen_identity(d, tier):
    return {"cfg": {"users": [d.choice(("u1", "u2", "u3")) for _ in range(d.int(2, 5))], "style": d.bool()}, "acts": []}


def run_identity(trace):
    users = trace["cfg"]["users"]
    p = _TwoFaced(trace["cfg"]["style"], True)
    p.connect({"user": users[0]})
    first = users[0]
    refused = 0
    for u in users[1:]:
        try:
            p.connect({"user": u})
            okc = True
        except ex.CloudTokenError:
            okc = False
        if u == first and not okc:
            return violation("identity", "reconnecting with the same identity %r was refused" % u)
        if u != first:
            if okc:
                return violation("identity", "connecting with credentials of %r while bound to %r was accepted" % (u, first))
            if p.connected:
                return violation("identity", "provider still connected after a refused connect")
            refused += 1
    # single use per sync
    q = MockProvider(False, True)
    q.connect({"key": "val"})
    other = MockProvider(False, True)
    other.connect({"key": "val"})
    EventManager._provider_guard.clear()
    st = SyncState((q, other))
    EventManager(q, st, 0)
    try:
        EventManager(q, st, 1)
        EventManager._provider_guard.clear()
        return violation("single_use", "one provider instance was accepted by two event managers")
    except ValueError:
        pass
    EventManager._provider_guard.clear()
    return ok(nontrivial=refused > 0, labels=["identity"])


PARTS = {"identity": (gen_identity, run_identity)}
