"""C12  Root confinement: nothing outside the sync roots is synced or modified."""
from .. import shims  # noqa: F401  (must precede any cloudsync import)
from cloudsync import CloudSync

from ..core import ok, violation, invalid
from ..gen import draw_cfg, emit_base, emit_user_op, envelope_ok, FLAVOURS
from ..model import World, ModelInvalid, under
from ..hist import HistoryRun, Stop
from ..engine import InvalidTrace, MUTATORS, blob
from .. import oracles as O

ID = "C12"
LEVEL = "exploration"
RULE = ("Hypothesis-generated histories (4 id/path flavours, provider-side event filtering on/off for id-style sides, "
        "in a quarter of the cases an application translate() that declines the sub-folder /z): hazard-free ops "
        "inside the roots, plus objects outside them - prefix siblings '/localX', '/local.bak', '/other' and files in "
        "the account root - which users create, edit, delete, rename among themselves, move INTO a root (files and "
        "folders with children) and receive objects moved OUT of a root.  Oracles: after every engine step the whole "
        "tree outside both roots is byte-identical to before the step; every engine-issued mutating call addresses "
        "(resolved before the call) a path inside that side's root on a component boundary; at every quiet point both "
        "roots equal the expected tree (move-out = deletion on the other side, move-in = creation with content and "
        "children); declined paths hold exactly what each side's users put there.  Non-trivial = >=1 boundary-crossing "
        "move or >=1 prefix-sibling object, and >=1 sync step executed while it existed.")
ASSUMPTIONS = [
    "part xmove: one object is renamed/deleted inside the root on one side while the other side moves it out (both ops before any sync step, any delivery order afterwards); judged: nothing outside a root is touched by any engine step, every engine mutation addresses a path inside its root; files and empty folders only (XMOVE_NONEMPTY_DIR, open finding KF-45); write || move-out is open finding KF-23 and is not generated",
    "mock providers; envelope hazards PATH_REUSE, DIRMOVE_ISOLATED, DIRMOVE_TOMB, XSIDE (a move-out counts as a delete, a move-in as a create)",
    "the pure gadget 'object moved out of the root while its peer is edited on the other side' is an open finding (KF-23) and excluded by XSIDE; it is replayed every run",
    "an object that was moved out of a root is never moved back in (open finding KF-09c)",
    "MOVEIN_NONEMPTY_DIR: a non-empty folder is moved into a root only on an id-style side with provider-side event filtering (the mock then walks it); elsewhere its children are never announced (open finding KF-36)",
]
OUTSIDE_DIRS = ("X", ".bak")          # suffixes appended to the root name: prefix siblings
DECLINED = "/z"


class DecliningCS(CloudSync):
    def translate(self, side, path):
        for r in self.roots:
            if path == r + DECLINED or path.startswith(r + DECLINED + "/"):
                return None
        return super().translate(side, path)


def budget(tier):
    q = tier == "quick"
    return [{"workers": 16, "examples": 200 if q else 5000},
            {"part": "xmove", "workers": 16, "examples": 60 if q else 2000}]


def gen(d, tier):
    cfg = draw_cfg(d)
    if d.chance(1, 3):
        cfg["filter"] = True
    if d.chance(1, 4):
        cfg["decline"] = True
    world = World(path_style=(cfg["L"] == "path", cfg["R"] == "path"))
    acts = []
    outside = [dict(), dict()]          # abs path -> None | content | ("dir-with", {rel: content})
    roots = ("/local", "/remote")
    # objects outside the roots, made before and while the engine runs
    for s in (0, 1):
        for suf in OUTSIDE_DIRS:
            acts.append(["u", s, "mkdir", "!" + roots[s] + suf])
            acts.append(["u", s, "create", "!" + roots[s] + suf + "/o", "out%d%s" % (s, suf)])
            outside[s][roots[s] + suf + "/o"] = "out%d%s" % (s, suf)
        acts.append(["u", s, "mkdir", "!/other"])
        acts.append(["u", s, "mkdir", "!/other/pack"])
        acts.append(["u", s, "create", "!/other/pack/p1", "pack%d" % s])
        acts.append(["u", s, "create", "!/other/f", "of%d" % s])
        acts.append(["u", s, "create", "!/acct", "acct%d" % s])
        outside[s].update({"/other/f": "of%d" % s, "/acct": "acct%d" % s, "/other/pack": ("dir", {"/p1": "pack%d" % s})})
    emit_base(d, world, acts, d.int(0, 1))
    n = d.int(3, 9 if tier == "quick" else 16)
    done = 0
    counter = [0]

    def fresh():
        counter[0] += 1
        return "m%d" % counter[0]
    fresh_out = set()       # objects moved out of a root in the current window: not moved back in before the next quiet point
    ever_out = set()        # objects that were inside a root once: never moved back in (open finding KF-09c: the engine
                            # still remembers their id and mixes the returning object up with whatever took its name)
    guard = 0
    while done < n and guard < 80:
        guard += 1
        k = d.weighted((("op", 4), ("step", 4), ("settle", 1), ("movein", 2), ("moveout", 2), ("outside", 2),
                        ("declined", 2 if cfg.get("decline") else 0)))
        s = d.int(0, 1)
        if k == "op":
            if emit_user_op(d, world, acts, s) is not None:
                done += 1
        elif k == "step":
            acts.append(["step", d.choice(("EL", "ER", "S"))])
            world.note_step(acts[-1][1])        # (STALE_PATHSTYLE needs to know which event loop ran)
        elif k == "settle":
            acts.append(["settle"])
            world.settle()
            fresh_out.clear()
        elif k == "movein":
            news = [p for p in world.new_paths(s) if p.count("/") <= 2]
            cands = [(p, v) for p, v in outside[s].items() if p not in fresh_out and p not in ever_out]
            if not news or not cands:
                continue
            src, v = d.choice(sorted(cands, key=lambda x: x[0]))
            dst = d.choice(news)
            if isinstance(v, tuple) and v[1] and not (cfg.get("filter") and cfg["LR"[s]] == "id"):
                # hazard MOVEIN_NONEMPTY_DIR (open finding KF-36): without provider-side event filtering nothing
                # announces the children of a folder that is moved into the root
                world.excluded["MOVEIN_NONEMPTY_DIR"] += 1
                continue
            if isinstance(v, tuple):
                ops = [("mkdir", dst)] + [(("mkdir", dst + rel) if c is None else ("create", dst + rel, c)) for rel, c in sorted(v[1].items())]
            else:
                ops = [("create", dst, v)]
            if any(world.hazard(s, *op) is not None for op in ops[:1]) or dst in world.win.vac[s] or world.win.vac[s] & set(
                    x for op in ops for x in op[1:2]):
                # (moving an object in onto a name vacated in the same window: PATH_REUSE without the id/id exception --
                # the object may be one the engine still remembers from an earlier move-out; witness KF-09b)
                world.excluded["BOUNDARY_MOVE_HAZARD"] += 1
                continue
            for op in ops:
                world.apply(s, *op)
            acts.append(["u", s, "rename", "!" + src, dst])
            del outside[s][src]
            done += 1
        elif k == "moveout":
            tree = world.side[s]
            cands = [("delete", f) for f in tree.files()] + [("rmtree", g) for g in tree.dirs() if g and tree.subtree(g)] + \
                    [("delete", g) for g in tree.dirs() if g and not tree.subtree(g)]
            # a folder leaving the root is one rename event: same isolation rule as a folder rename
            cands = [c for c in cands if world.hazard(s, *c) is None and
                     (not tree.is_dir(c[1]) or world.hazard(s, "rename", c[1], "/moved-out") is None)]
            if not cands:
                continue
            op, p = d.choice(cands)
            if tree.is_dir(p):
                world.win.dirmoves.append((s, p, p))
            dst = d.choice((roots[s] + "X", roots[s] + ".bak", "/other")) + "/" + fresh()
            if tree.is_dir(p):
                outside[s][dst] = ("dir", {q[len(p):]: tree.t[q] for q in tree.subtree(p)})
            else:
                outside[s][dst] = tree.t[p]
            gone = {p} | set(tree.subtree(p))
            world.apply(s, op, p)
            # DIRMOVE_TOMB (KF-11 family): a moved-out object leaves a tombstone on BOTH sides' path-style indexes
            gone |= world.last_gone
            world.ever_deleted[0] |= gone
            world.ever_deleted[1] |= gone
            acts.append(["u", s, "rename", p, "!" + dst])
            fresh_out.add(dst)
            ever_out.add(dst)
            done += 1
        elif k == "outside":
            files = sorted(p for p, v in outside[s].items() if not isinstance(v, tuple))
            kind = d.choice(("create", "write", "delete", "rename"))
            if kind == "create":
                p = d.choice((roots[s] + "X", roots[s] + ".bak", "/other")) + "/" + fresh()
                c = world.new_content()
                acts.append(["u", s, "create", "!" + p, c])
                outside[s][p] = c
            elif files and kind == "write":
                p = d.choice(files)
                c = world.new_content()
                acts.append(["u", s, "write", "!" + p, c])
                outside[s][p] = c
            elif files and kind == "delete":
                p = d.choice(files)
                acts.append(["u", s, "delete", "!" + p])
                del outside[s][p]
            elif files:
                p = d.choice(files)
                q = d.choice((roots[s] + "X", roots[s] + ".bak", "/other")) + "/" + fresh()
                acts.append(["u", s, "rename", "!" + p, "!" + q])
                outside[s][q] = outside[s].pop(p)
                if p in fresh_out:
                    fresh_out.add(q)
                if p in ever_out:
                    ever_out.add(q)
        elif k == "declined":
            # private objects under the declined folder: never synced, never touched
            zs = world.__dict__.setdefault("zmodel", [dict(), dict()])[s]
            if DECLINED not in zs:
                acts.append(["u", s, "mkdir", DECLINED])
                zs[DECLINED] = None
            else:
                p = DECLINED + "/" + fresh()
                c = world.new_content()
                acts.append(["u", s, "create", p, c])
                zs[p] = c
    acts.append(["settle"])
    world.settle()
    return {"cfg": cfg, "acts": acts, "meta": {"excluded": dict(world.excluded)}}


class Run(HistoryRun):
    def __init__(self, trace):
        super().__init__(trace, case_kw={"cs_class": DecliningCS} if trace["cfg"].get("decline") else None)
        self.zmodel = [dict(), dict()]
        self._before = None
        self.boundary = 0
        self.sync_steps_with_outside = 0
        self.checked_calls = 0

    # ---- user ops with absolute ('!') paths: keep the inside expectation right
    def do_user(self, act):
        side, op, args = act[1], act[2], list(act[3:])
        abs_args = [isinstance(a, str) and a.startswith("!") for a in args]
        decl = [isinstance(a, str) and under(a, DECLINED) for a in args]
        if self.trace["cfg"].get("decline") and any(decl):
            self.case.user(side, op, *args)
            if op == "mkdir":
                self.zmodel[side][args[0]] = None
            elif op in ("create", "write"):
                self.zmodel[side][args[0]] = blob(args[1])
            else:
                raise InvalidTrace("only mkdir/create/write are generated under the declined folder")
            self.stats["user_ops"] += 1
            self._seen_op = True
            self._step_since_op = False
            return
        if not any(abs_args):
            return super().do_user(act)
        case = self.case
        if op == "rename" and abs_args[0] and not abs_args[1]:
            # move IN: expected = creation with content (and children)
            src = args[0][1:]
            prov = case.prov[side]
            info = prov.info_path(src)
            if info is None:
                raise InvalidTrace("move-in source missing")
            sub = {}
            if info.otype.value == "dir":
                for p, v in case.snap(side, root=src).items():
                    sub[p] = v
            else:
                sub[""] = case.snap_outside(side).get(src)
            case.user(side, op, *args)
            if self.exp is not None:
                try:
                    if info.otype.value == "dir":
                        self.exp.apply("mkdir", args[1])
                        for p in sorted(sub):
                            if sub[p] is None:
                                self.exp.apply("mkdir", args[1] + p)
                            else:
                                self.exp.t[args[1] + p] = sub[p]
                    else:
                        self.exp.check("create", args[1])
                        self.exp.t[args[1]] = sub[""]
                except ModelInvalid:
                    self.exp = None
            self.boundary += 1
        elif op == "rename" and not abs_args[0] and abs_args[1]:
            # move OUT: expected = deletion
            case.user(side, op, *args)
            if self.exp is not None:
                try:
                    self.exp.apply("rmtree" if self.exp.is_dir(args[0]) else "delete", args[0])
                except ModelInvalid:
                    self.exp = None
            self.boundary += 1
        else:
            case.user(side, op, *args)          # purely outside
        st = self.stats
        st["user_ops"] += 1
        st["sides"].add(side)
        st["kinds"].add(op)
        self._seen_op = True
        self._step_since_op = False

    # ---- confinement around every engine step
    def before_step(self, who):
        self._before = (self.case.snap_outside(0), self.case.snap_outside(1))
        self._calls_at = len(self.case.calls)
        self._z_before = [{p: v for p, v in self.case.snap(s).items() if under(p, DECLINED)} for s in (0, 1)]

    def after_step(self, who):
        e = O.escaped(self.case)
        if e:
            raise Stop(violation("exception_escaped", e))
        case = self.case
        for s in (0, 1):
            after = case.snap_outside(s)
            if after != self._before[s]:
                raise Stop(violation("outside_untouched", "engine step %s changed objects outside the root on side %d: %s" % (
                    who, s, O.diff_trees(self._before[s], after, "before", "after")[:4])))
            if self.trace["cfg"].get("decline"):
                z = {p: v for p, v in case.snap(s).items() if under(p, DECLINED)}
                if z != self._z_before[s]:
                    raise Stop(violation("declined_left_alone", "engine step %s changed declined paths on side %d: %s" % (
                        who, s, O.diff_trees(self._z_before[s], z, "before", "after")[:4])))
        for c in case.calls[self._calls_at:]:
            if c["name"] not in MUTATORS:
                continue
            root = case.roots[c["side"]]
            self.checked_calls += 1
            for p in (c["path"], c["dst"]):
                if p is None:
                    continue
                if not (p == root or p.startswith(root + "/")):
                    raise Stop(violation("engine_calls_confined", "engine call %s(%r -> %r) on side %d addresses a path outside root %s (step %s)" % (
                        c["name"], c["path"], c["dst"], c["side"], root, who)))
            if c["path"] is None and c["name"] != "mkdir":
                raise Stop(violation("engine_calls_confined", "engine call %s on side %d addresses an object that has no path (moved away?) (step %s)" % (
                    c["name"], c["side"], who)))
        if who == "S" and any(self._before):
            self.sync_steps_with_outside += 1

    def at_quiet(self, rounds, final):
        if self.exp is None:
            return
        want = O.tree_bytes(self.exp)
        for s, nm in ((0, "L"), (1, "R")):
            got = {p: v for p, v in self.case.snap(s).items() if not under(p, DECLINED)}
            bad = [p for p in got if ".conflicted" in p]
            if bad:
                raise Stop(violation("inside_exact", "'.conflicted' artefact on %s: %s" % (nm, bad[:3])))
            dd = O.diff_trees(want, got, "expected", nm)
            if dd:
                raise Stop(violation("inside_exact", "%s != expected: %s" % (nm, "; ".join(dd[:6]))))
            if self.trace["cfg"].get("decline"):
                z = {p: v for p, v in self.case.snap(s).items() if under(p, DECLINED)}
                if z != self.zmodel[s]:
                    raise Stop(violation("declined_left_alone", "declined subtree on %s is %s, users left %s" % (nm, O.fmt_tree(z), O.fmt_tree(self.zmodel[s]))))

    def finish(self):
        cfg = self.trace["cfg"]
        labs = ["flavour:%s/%s" % (cfg["L"], cfg["R"])]
        if cfg.get("filter"):
            labs.append("event_filtering")
        if cfg.get("decline"):
            labs.append("declining_translate")
        if self.boundary:
            labs.append("boundary_move")
        return ok(nontrivial=self.sync_steps_with_outside > 0 and (self.boundary > 0 or True), labels=labs,
                  counters={"engine_mutations_checked": self.checked_calls, "boundary_moves": self.boundary})


def run(trace):
    return Run(trace).execute()


# ----------------------------------------------------------------------------- part: xmove
# One object is renamed (or deleted) inside the root on one side while the other side moves it out of its root, before
# the engine has digested either.  The statement says what must NOT happen whatever the engine makes of the conflict:
# the object now lives outside a root, so no engine step may touch it (rename it back in, overwrite it, delete it) and
# no engine call may address a path outside the roots.  What the inside looks like afterwards is not judged.
# (write || move-out is open finding KF-23 and is not generated.)
def gen_xmove(d, tier):
    cfg = draw_cfg(d)
    world = World(path_style=(cfg["L"] == "path", cfg["R"] == "path"))
    acts = []
    roots = ("/local", "/remote")
    outs = [[roots[s] + "X", roots[s] + ".bak", "/other", "/zout"] for s in (0, 1)]
    for s in (0, 1):
        for o in outs[s]:
            acts.append(["u", s, "mkdir", "!" + o])
    emit_base(d, world, acts, d.int(0, 1))
    for rnd in range(1):        # one conflict per case: what the inside looks like afterwards is not modelled
        t = world.side[0]
        # hazard XMOVE_NONEMPTY_DIR (open finding KF-45): only files and empty folders; for a folder with children the
        # engine goes on to delete the moved-out children OUTSIDE the root
        objs = [p for p in t.files() + [g for g in t.dirs() if g and not t.subtree(g)] if world.settled_untouched(p)]
        if not objs:
            break
        f = d.choice(objs)
        a = d.int(0, 1)
        b = 1 - a
        kind = d.choice(("rename", "rename", "delete")) if not t.is_dir(f) else "rename"
        news = [q for q in world.new_paths(a) if not under(q, f)]
        if kind == "rename" and not news:
            break
        opa = ["u", a, "rename", f, d.choice(news)] if kind == "rename" else ["u", a, "delete", f]
        opb = ["u", b, "rename", f, "!" + d.choice(outs[b]) + "/x%d" % rnd]
        first, second = (opa, opb) if d.bool() else (opb, opa)
        acts.append(first)
        for _ in range(d.int(0, 2)):
            acts.append(["step", d.choice(("EL", "ER"))])       # intake only: no sync step may carry the first op across
        acts.append(second)
        for _ in range(d.int(0, 6)):
            who = d.choice(("EL", "ER", "S"))
            acts.append(["step", who, 0.02] if d.bool() else ["step", who])
        acts.append(["settle"])
        # the model only has to know that these names are spent
        for q in [f] + ([opa[4]] if kind == "rename" else []):
            world.retired.add(q)
        world.exp_valid = False
    return {"cfg": cfg, "acts": acts}


def run_xmove(trace):
    r = Run(trace)
    out = r.execute()
    if out["status"] == "ok":
        out["labels"] = out.get("labels", []) + ["xmove"]
        out["nontrivial"] = r.boundary > 0
    return out


PARTS = {"xmove": (gen_xmove, run_xmove)}
