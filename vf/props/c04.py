"""C04  Non-conflicting concurrent changes merge exactly (no resurrection / duplication)."""
from ..core import ok, violation
from ..gen import draw_cfg, gen_history, envelope_ok
from ..hist import HistoryRun, Stop
from .. import oracles as O

ID = "C04"
LEVEL = "exploration"
RULE = ("Hypothesis-generated two-sided histories whose two sides touch disjoint files/folders within each window "
        "(XSIDE enforced by construction, so expected = base + opsL + opsR is well defined), 4 id/path flavours, "
        "arbitrary interleaving with single EL/ER/S iterations.  Non-trivial = some window in which both sides "
        "contributed >=1 op and at least one of them is a delete/rename/rmtree; distinct = distinct trace digest.")
ASSUMPTIONS = [
    "mock providers (id- and path-style, case-sensitive) stand in for real accounts",
    "hazards exclude by construction: PATH_REUSE, DIRMOVE_ISOLATED, DIRMOVE_TOMB, XSIDE (open known findings)",
    "virtual clock; quiet decided by a 400-round step bound",
]


def budget(tier):
    return {"workers": 16, "examples": 400 if tier == "quick" else 6000}


def gen(d, tier):
    cfg = draw_cfg(d, allow_ci=True)
    n_ops = (4, 9) if tier == "quick" else (4, 18)
    acts, world = gen_history(d, cfg, sides=(0, 1), n_ops=n_ops, sizes=False, w_settle=1, w_op=6)
    return {"cfg": cfg, "acts": acts, "meta": {"excluded": dict(world.excluded)}}


def in_domain(trace):
    return envelope_ok(trace)


class Run(HistoryRun):
    def after_step(self, who):
        e = O.escaped(self.case)
        if e:
            raise Stop(violation("exception_escaped", e))

    def at_quiet(self, rounds, final):
        if self.exp is None:
            return
        e = O.equals_expected(self.case, self.exp)
        if e:
            clause = "merge_exact"
            if ".conflicted" in e:
                clause = "no_conflict_artefact"
            raise Stop(violation(clause, e))

    def finish(self):
        st = self.stats
        cfg = self.trace["cfg"]
        labs = ["flavour:%s/%s" % (cfg["L"], cfg["R"])] + ["op:" + k for k in sorted(st["kinds"])]
        if st["two_sided_windows"]:
            labs.append("two_sided_window")
        return ok(nontrivial=st["two_sided_destructive_windows"] > 0, labels=labs)


def run(trace):
    return Run(trace).execute()
