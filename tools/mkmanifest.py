"""Regenerates MANIFEST.json from the table below (kept in one place so it is always valid)."""
import json, os, sys
VERIF = os.path.dirname(os.path.dirname(os.path.abspath(__file__)))
sys.path.insert(0, VERIF)
BASELINE = "cd /repo && /venv/bin/python -m pytest -ra -q -p no:cacheprovider --timeout=900 --continue-on-collection-errors"

CHECKS = {
 "C03": dict(engine="E-engine-harness", category="exploration", design_ref="2/C03",
   technique="property-based testing: Hypothesis-generated one-sided histories against a file-tree reference model (mirror oracle), per-step origin-snapshot invariant, no-echo call-log invariant; trace-level ddmin shrinking",
   text="Generated one-sided operation histories (all four id/path provider flavours, arbitrary interleaving of single production-loop iterations) are executed against the real engine and compared with a pure reference tree at every quiet point; the origin side is snapshotted around every engine step and the engine's provider call log must stay silent after quiet. No counter-example in the explored domain is the claim; absence is not established.",
   note="Trusted: mock providers as stand-ins for accounts, harness shims (virtual clock, deterministic ids/hash order), reference tree model. Domain narrowed by the hazards listed in evidence.assumptions (open known findings)."),
}
NOT_YET = {}

def main():
    props = [json.loads(l) for l in open(os.path.join(VERIF, "properties.jsonl"))]
    checks, na = [], []
    for p in props:
        pid = p["id"]
        if pid in CHECKS:
            c = CHECKS[pid]
            checks.append({
                "property_id": pid,
                "quick_cmd": "./check %s quick" % pid,
                "thorough_cmd": "./check %s thorough" % pid,
                "evidence_file": "evidence/%s.json" % pid,
                "replay_cmd_template": "./check %s --replay {path}" % pid,
                "engine": c["engine"],
                "level_claimed": {"category": c["category"], "text": c["text"], "design_ref": "DESIGN.md section " + c["design_ref"]},
                "level_note": c["note"],
                "technique": c["technique"],
            })
        else:
            na.append({"property_id": pid, "reason": NOT_YET.get(pid, "check not built yet in this session (planned: see DESIGN.md section 2); not claimed until its check is registered")})
    engines = {}
    for c in checks:
        engines.setdefault(c["engine"], []).append(c["property_id"])
    ENG = {
      "E-engine-harness": ("vf/engine.py", "two MockProviders + real CloudSync stepped one production-loop iteration at a time under a virtual clock; call log, fault/crash/event-mangling wrappers; pure reference tree model with hazard predicates"),
      "state-level": ("vf/props", "SyncState/SyncEntry driven directly by generated events and manager-style assignments"),
      "storage-model": ("vf/props/c09.py", "Storage backends vs dict model, stateful Hypothesis machine"),
      "path-laws": ("vf/props/c13.py", "bounded-exhaustive + Hypothesis path algebra laws"),
      "provider-model": ("vf/props/c16.py", "provider API vs reference file tree, stateful"),
      "runnable": ("vf/props/c18.py", "Runnable/NotificationManager scripted work functions, harness-owned schedule"),
      "hcache": ("vf/props/c19.py", "HierarchicalCache vs dictionary model + structural invariant, stateful"),
    }
    man = {
      "version": 1,
      "setup_cmd": "./setup.sh",
      "hooks": {"guard": "CLOUDSYNC_VERIF", "enable": "no in-source hooks: all instrumentation is installed from outside by vf/shims.py and vf/engine.py (monkey-patches and subclasses); nothing to enable",
                "baseline_off_cmd": BASELINE, "source_commits": [], "add_only": True},
      "engines": [{"name": n, "path": ENG[n][0], "serves_properties": ps, "kind_free_text": ENG[n][1]} for n, ps in engines.items()],
      "checks": checks,
      "not_applicable": na,
      "notes": "Technique family: property-based testing and fuzzing (Hypothesis 6.168). Every check: ./check <ID> quick|thorough; VERIF_SEED respected; exit 2 = harness error (never a VIOLATION). Known findings: known_findings.json. fix: commits in /repo are listed there with status fixed.",
    }
    with open(os.path.join(VERIF, "MANIFEST.json"), "w") as f:
        json.dump(man, f, indent=1)
        f.write("\n")
    print("MANIFEST: %d checks, %d not_applicable" % (len(checks), len(na)))

if __name__ == "__main__":
    main()
