"""Literal execution of an engine-history trace with per-step / per-settle oracle hooks."""
from .engine import Case, InvalidTrace, EngineCrash
from .model import Tree, ModelInvalid
from .core import ok, violation, invalid


import os
VERBOSE = int(os.environ.get("VERIF_VERBOSE", "0") or 0)


class Stop(Exception):
    """Raised by hooks to end the run with a verdict."""

    def __init__(self, outcome):
        self.outcome = outcome


class HistoryRun:
    """Executes trace['acts'].  Subclasses/hook users override the on_* methods.

    self.exp        merged expected tree (all user ops applied in trace order); None if an op was not
                    applicable to it (only for free-overlap traces)
    self.quiet_n    number of settles that ended quiet
    """

    def __init__(self, trace, case_kw=None):
        self.trace = trace
        self.case = None
        self.crash = None
        try:
            self.case = Case(trace["cfg"], **(case_kw or {}))
        except EngineCrash as e:
            self.crash = str(e)
        self.exp = Tree()
        self.stats = {"user_ops": 0, "steps": 0, "settles": 0, "sides": set(), "kinds": set(),
                      "step_between_ops": False, "max_rounds": 0}
        self._seen_op = False
        self._step_since_op = False
        self.win_kinds = [set(), set()]     # op kinds per side since the last quiet point
        self.gadgets = []
        self.stats["two_sided_windows"] = 0
        self.stats["two_sided_destructive_windows"] = 0

    # ---- hooks
    def before_step(self, who):
        pass

    def after_step(self, who):
        pass

    def after_user(self, act):
        pass

    def at_quiet(self, rounds, final):
        pass

    def special(self, act):
        raise InvalidTrace("unknown action %r" % (act,))

    def do_gadget(self, g):
        """Pure conflict gadget: first op, event-intake steps only, second op (no sync step in between)."""
        ops = g["ops"]
        rec = {"shape": g["shape"], "ops": ops, "step_at": self.case.step_no, "calls_at": len(self.case.calls)}
        self.exp = None       # the merged outcome on gadget paths is not modelled: no equals_expected after a gadget
        for i, (sd, op, *args) in enumerate(ops):
            self.case.user(sd, op, *args)
            self.stats["user_ops"] += 1
            self.stats["sides"].add(sd)
            self.stats["kinds"].add(op)
            self.win_kinds[sd].add(op)
            if i == 0:
                for who in g.get("mid", []):
                    if who not in ("EL", "ER"):
                        raise InvalidTrace("only event-intake steps inside a gadget")
                    self.do_step(who)
        self.gadgets.append(rec)
        self._seen_op = True
        self._step_since_op = False

    # ---- execution
    def do_step(self, who):
        self.before_step(who)
        n0 = len(self.case.calls)
        self.case.step(who)
        if VERBOSE:
            calls = [(c["side"], c["name"], c["path"], c["dst"], c["err"], c.get("fault")) for c in self.case.calls[n0:]
                     if VERBOSE > 1 or c["name"] in ("create", "upload", "rename", "delete", "mkdir", "download") or c["err"]]
            print("   %s %s" % (who, calls))
        self.stats["steps"] += 1
        self._step_since_op = True
        self.after_step(who)

    def do_settle(self, final=False):
        from .shims import CLOCK
        from .engine import SETTLE_ROUNDS
        rounds = None
        for r in range(1, SETTLE_ROUNDS + 1):
            for who in ("EL", "ER", "S"):
                self.do_step(who)
            if self.case.quiet():
                rounds = r
                break
            CLOCK.sleep(0.05)
        self.stats["settles"] += 1
        if rounds is None:
            raise Stop(violation("stall", "engine not quiet after %d rounds; changeset=%s" % (
                SETTLE_ROUNDS, [str(e) for e in self.case.cs.state.changes][:4])))
        self.stats["max_rounds"] = max(self.stats["max_rounds"], rounds)
        if self.win_kinds[0] and self.win_kinds[1]:
            self.stats["two_sided_windows"] += 1
            if (self.win_kinds[0] | self.win_kinds[1]) & {"delete", "rename", "rmtree"}:
                self.stats["two_sided_destructive_windows"] += 1
        self.win_kinds = [set(), set()]
        self.at_quiet(rounds, final)
        return rounds

    def do_user(self, act):
        side, op, args = act[1], act[2], act[3:]
        if self.exp is not None:
            try:
                from .gen import lower_op
                mop = lower_op(self.trace["cfg"], [op] + list(args))
                if not (mop[0] == "rename" and mop[1] == mop[2]):      # case-only rename: same tree modulo case
                    self.exp.apply(*mop)
            except ModelInvalid:
                self.exp = None
        self.case.user(side, op, *args)
        st = self.stats
        st["user_ops"] += 1
        st["sides"].add(side)
        st["kinds"].add(op)
        self.win_kinds[side].add(op)
        if self._seen_op and self._step_since_op:
            st["step_between_ops"] = True
        self._seen_op = True
        self._step_since_op = False
        self.after_user(act)

    def execute(self):
        acts = self.trace["acts"]
        if self.crash:
            return violation("engine_construct", self.crash)
        try:
            last_settle = max([i for i, a in enumerate(acts) if a[0] == "settle"] or [-1])
            for i, a in enumerate(acts):
                k = a[0]
                if VERBOSE:
                    print(">>", a)
                    if k == "settle" or VERBOSE > 1:
                        print("   L:", {p: (v if v is None else v[:8]) for p, v in sorted(self.case.snap(0).items())})
                        print("   R:", {p: (v if v is None else v[:8]) for p, v in sorted(self.case.snap(1).items())})
                        if self.case.cs is not None:
                            print(self.case.cs.state.pretty_print(use_sigs=False))
                if k == "u":
                    self.do_user(a)
                elif k == "step":
                    if len(a) > 2 and a[2]:
                        from .shims import CLOCK
                        CLOCK.sleep(a[2])       # time passing between two loop iterations (production loops sleep)
                    self.do_step(a[1])
                elif k == "settle":
                    self.do_settle(final=(i == last_settle))
                elif k == "gadget":
                    self.do_gadget(a[1])
                else:
                    self.special(a)
            out = self.finish()
        except InvalidTrace as e:
            out = invalid(str(e))
        except EngineCrash as e:
            out = violation("engine_construct", str(e))
        except Stop as s:
            out = s.outcome
        finally:
            self.case.close()
        return out

    def finish(self):
        return ok()
