"""C04  Non-conflicting concurrent changes merge exactly (no resurrection / duplication)."""
from ..core import ok, violation
from ..gen import draw_cfg, gen_history, envelope_ok
from ..hist import HistoryRun, Stop
from .. import oracles as O

ID = "C04"
LEVEL = "exploration"
RULE = ("Hypothesis-generated two-sided histories whose two sides touch disjoint files/folders within each window "
        "(XSIDE enforced by construction, so expected = base + opsL + opsR is well defined), 4 id/path flavours, "
        "arbitrary interleaving with single EL/ER/S iterations.  Non-trivial = some window in which both sides "
        "contributed >=1 op and at least one of them is a delete/rename/rmtree; distinct = distinct trace digest.")
ASSUMPTIONS = [
    "mock providers (id- and path-style, case-sensitive) stand in for real accounts",
    "hazards exclude by construction: PATH_REUSE, DIRMOVE_ISOLATED, DIRMOVE_TOMB, XSIDE (open known findings)",
    "virtual clock; quiet decided by a 400-round step bound",
    "part inside (a child is moved between directories inside folder X while the other side renames X): only the combination that holds on the unchanged tree is generated -- both sides id-style, a file or a folder moving up to X's top level (INSIDE_MOVE_ENVELOPE, open finding KF-50)",
]


def budget(tier):
    q = tier == "quick"
    return [{"workers": 16, "examples": 400 if q else 6000},
            {"part": "inside", "workers": 16, "examples": 40 if q else 1500}]


def gen(d, tier):
    cfg = draw_cfg(d, allow_ci=True)
    n_ops = (4, 9) if tier == "quick" else (4, 18)
    acts, world = gen_history(d, cfg, sides=(0, 1), n_ops=n_ops, sizes=False, w_settle=1, w_op=6)
    return {"cfg": cfg, "acts": acts, "meta": {"excluded": dict(world.excluded)}}


def in_domain(trace):
    if any(a[0] == "u" and a[3] == "/x" for a in trace["acts"]):
        return in_domain_inside(trace)
    return envelope_ok(trace)


class Run(HistoryRun):
    def after_step(self, who):
        e = O.escaped(self.case)
        if e:
            raise Stop(violation("exception_escaped", e))

    def at_quiet(self, rounds, final):
        if self.exp is None:
            return
        e = O.equals_expected(self.case, self.exp)
        if e:
            clause = "merge_exact"
            if ".conflicted" in e:
                clause = "no_conflict_artefact"
            raise Stop(violation(clause, e))

    def finish(self):
        st = self.stats
        cfg = self.trace["cfg"]
        labs = ["flavour:%s/%s" % (cfg["L"], cfg["R"])] + ["op:" + k for k in sorted(st["kinds"])]
        if st["two_sided_windows"]:
            labs.append("two_sided_window")
        return ok(nontrivial=st["two_sided_destructive_windows"] > 0, labels=labs)


def run(trace):
    return Run(trace).execute()


# ----------------------------------------------------------------------------- part: moved-inside
# One side moves an object between two directories INSIDE folder X while the other side renames X (and may change
# unrelated objects).  The two changes touch different objects -- a child and its ancestor's name -- and commute, so the
# expected tree is well defined: X under its new name with the child at its new place inside.
def gen_inside(d, tier):
    # hazard INSIDE_MOVE_ENVELOPE (open finding KF-50): outside id/id with the child moving UP to X's top level the
    # engine reverts or loses the child's move on the unchanged tree (tools/inside_enum.py; the mixed flavours that
    # looked clean in that enumeration failed under longer starved schedules in the thorough tier, 4 of 24 000).
    L, R, a = d.choice((("id", "id", 0), ("id", "id", 1)))
    cfg = {"L": L, "R": R, "salt": d.int(0, 7)}
    b = 1 - a               # a moves the child, b renames the folder
    base = [["u", a, "mkdir", "/x"], ["u", a, "mkdir", "/x/s"], ["u", a, "create", "/x/s/f", "f0"],
            ["u", a, "create", "/x/k", "k0"], ["u", a, "create", "/o", "o0"], ["u", a, "mkdir", "/x/s/g"],
            ["u", a, "create", "/x/s/g/h", "h0"], ["settle"]]
    moves = [("rename", "/x/s/f", "/x/f")]                    # file up to X's top level
    if L == R == "id":
        moves.append(("rename", "/x/s/g", "/x/g"))            # folder (with a child) up to X's top level
    move = d.choice(moves)
    ops = [["u", a] + list(move), ["u", b, "rename", "/x", "/y"]]
    if d.bool():
        ops.reverse()
    acts = list(base)
    acts.append(ops[0])
    for _ in range(d.int(0, 2)):
        acts.append(["step", d.choice(("EL", "ER"))])       # intake only between the two
    acts.append(ops[1])
    if d.bool():
        acts.append(["u", b, "write", "/o", "o1"])          # the folder-renaming side also edits an unrelated file
    for _ in range(d.int(0, 8)):
        who = d.choice(("EL", "ER", "S"))
        acts.append(["step", who, 0.02] if d.bool() else ["step", who])
    acts.append(["settle"])
    return {"cfg": cfg, "acts": acts}


class InsideRun(Run):
    """expected final tree: the user ops applied to the model in canonical order (base, child move, folder rename,
    the rest) -- the child move is spelled in terms of the old folder name on its own side"""
    def __init__(self, trace):
        super().__init__(trace)
        from ..model import Tree
        t = Tree()
        us = [a for a in trace["acts"] if a[0] == "u"]
        moves = [a for a in us if a[2] == "rename" and a[3].startswith("/x/")]
        dirmv = [a for a in us if a[2] == "rename" and a[3] == "/x"]
        rest = [a for a in us if a not in moves and a not in dirmv]
        base = [a for a in rest if not (a[2] == "write")]
        late = [a for a in rest if a[2] == "write"]
        for a in base + moves + dirmv + late:
            t.apply(*a[2:])
        self.final = t

    def at_quiet(self, rounds, final):
        if not final:
            return
        e = O.equals_expected(self.case, self.final)
        if e:
            raise Stop(violation("no_conflict_artefact" if ".conflicted" in e else "merge_exact", e))


def in_domain_inside(trace):
    us = [a for a in trace["acts"] if a[0] == "u"]
    acts = trace["acts"]
    last_u = max(i for i, a in enumerate(acts) if a[0] == "u")
    if acts[-1][0] != "settle" or sum(1 for a in acts if a[0] == "settle") != 2 or any(a[0] == "settle" for a in acts[acts.index(["settle"]) + 1:last_u]):
        return False
    return (sum(1 for a in us if a[2] == "rename" and a[3].startswith("/x/")) == 1 and
            sum(1 for a in us if a[2] == "rename" and a[3] == "/x") == 1 and
            sum(1 for a in us if a[2] in ("mkdir", "create")) == 7)


def run_inside(trace):
    if not in_domain_inside(trace):
        from ..core import invalid
        return invalid("not a moved-inside scenario")
    r = InsideRun(trace)
    out = r.execute()
    if out["status"] == "ok":
        out["nontrivial"] = True
        out["labels"] = ["moved_inside_renamed_folder", "flavour:%s/%s" % (trace["cfg"]["L"], trace["cfg"]["R"])]
    return out


PARTS = {"inside": (gen_inside, run_inside)}
