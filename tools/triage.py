"""Triage aid: run a campaign, collect ALL violations, shrink each, print clusters.
usage: triage.py <ID> <examples-per-worker> [seed] [part]"""
import sys, os, json, multiprocessing
sys.path.insert(0, "/verif")
os.environ.setdefault("PYTHONHASHSEED", "0")
from collections import Counter, defaultdict
from vf import run as R
from vf.core import load_prop
from tools.show import compact

def work(args):
    pid, tier, wseed, n, part = args
    import vf.run
    orig = vf.run._worker_body
    res = orig(pid, tier, wseed, n, part)
    prop = load_prop(pid)
    runf = prop.PARTS[part][1] if part else prop.run
    out = []
    for tr, o in res["violations"][:8]:
        try:
            tr2, _ = R.ddmin(tr, runf, o["clause"], max_runs=300, in_domain=None if os.environ.get("FREE_SHRINK") else getattr(prop, "in_domain", None))
            o2 = runf(tr2)
        except Exception as e:
            tr2, o2 = tr, o
        if o2.get("status") != "violation":
            tr2, o2 = tr, dict(o, detail="[NOT REPRODUCED ON REPLAY] " + o["detail"])
        out.append((tr2, o2))
    res["violations"] = out
    res["digests"] = len(res["digests"])
    return res

if __name__ == "__main__":
    pid = sys.argv[1].upper(); n = int(sys.argv[2]); seed = int(sys.argv[3]) if len(sys.argv) > 3 else 1
    part = sys.argv[4] if len(sys.argv) > 4 else None
    tier = os.environ.get("TIER", "quick")
    jobs = [(pid, tier, seed * 1000 + w, n, part) for w in range(16)]
    with multiprocessing.get_context("fork").Pool(16) as pool:
        results = pool.map(work, jobs, chunksize=1)
    ev = sum(r.get("evaluations", 0) for r in results)
    clusters = defaultdict(list)
    for r in results:
        if r.get("error"):
            print("ERROR", r["error"]); continue
        if r.get("invalid"):
            print("INVALID x%d" % r["invalid"], r["first_invalid"][1]["detail"], compact(r["first_invalid"][0]["acts"]) if "acts" in r["first_invalid"][0] else json.dumps(r["first_invalid"][0], default=repr)[:400])
        for tr, o in r["violations"]:
            cfg = tr.get("cfg", {})
            clusters[(o["clause"], cfg.get("L"), cfg.get("R"))].append((compact(tr["acts"]) if "acts" in tr else json.dumps(tr, default=repr)[:600], o["detail"][:200], cfg))
    if os.environ.get("DUMP"):
        allv = [(tr, o) for r in results if not r.get("error") for tr, o in r["violations"]]
        allv.sort(key=lambda x: len(repr(x[0])))
        if allv:
            from vf.core import jdump
            open(os.environ["DUMP"], "w").write(jdump({"prop": pid, "part": part, "trace": allv[0][0], "clause": allv[0][1]["clause"], "detail": allv[0][1]["detail"]}))
    print("evaluations", ev, "violations", sum(len(v) for v in clusters.values()))
    for k, v in sorted(clusters.items(), key=lambda kv: -len(kv[1])):
        print("==", k, len(v))
        for c, d, cfg in sorted(v, key=lambda x: len(x[0]))[:int(os.environ.get("SHOW", "4"))]:
            print("   ", cfg); print("     ", c); print("      ->", d)
