#!/bin/bash
# setup_cmd: offline. Makes sure hypothesis is importable by /venv/bin/python (it is pre-installed in /venv;
# if not, install it from the offline wheelhouse into /verif/.deps, which ./check puts on PYTHONPATH).
cd "$(dirname "$0")"
export PIP_NO_INDEX=1
if ! /venv/bin/python -c "import hypothesis" 2>/dev/null; then
  mkdir -p .deps
  /venv/bin/pip install --no-index --find-links /opt/veriftools/wheels --target .deps hypothesis || exit 1
fi
PYTHONPATH="$PWD:$PWD/.deps" /venv/bin/python -c "import hypothesis, vf.shims; print('setup ok: hypothesis', hypothesis.__version__)"
