"""Restart and crash machinery shared by C06 (restart at a step boundary) and C07 (crash points).

Extra trace actions
  ["down"]                 stop the engine at this step boundary (cs.done()); user ops that follow are offline changes
  ["up", mode]             build a new engine over the same storage and the same two accounts.  mode:
                             "intact" | "no_cursor" (cursor rows removed) | "bad_cursor" (stored cursor is rejected by
                             the provider) | "no_walk_marker" (walk marker rows removed)
  ["crash", kind, k]       arm a crash: kind "storage" = die immediately BEFORE the k-th storage write from now,
                             kind "provider" = die immediately AFTER the k-th engine-issued provider mutation from now.
                             When it fires the engine is discarded and a new one is built (mode "intact").
"""
from .engine import InvalidTrace, MUTATORS
from .hist import HistoryRun, Stop
from .core import violation


class Crash(BaseException):
    """The process died."""


class CrashPlan:
    def __init__(self, run):
        self.run = run
        self.arm = None         # [kind, k]
        self.dead = False
        self.fired = None       # dict(kind, step, step_prov_writes, step_storage_writes)
        self.storage_writes = 0
        self.provider_writes = 0
        self.step_sw = 0
        self.step_pw = 0

    # storage hook: called BEFORE a write takes effect
    def on_write(self, kind, tag, eid):
        if self.dead:
            raise Crash()
        if not self.run.case.in_engine:
            return
        self.storage_writes += 1
        if self.arm and self.arm[0] == "storage":
            if self.arm[1] <= 0:
                self._fire("storage")
                raise Crash()
            self.arm[1] -= 1
        self.step_sw += 1

    # provider hook (fault_plan signature)
    def __call__(self, case, prov, rec, phase):
        if self.dead:
            return Crash()
        if rec["name"] not in MUTATORS:
            return None
        if phase == "after":
            self.provider_writes += 1
            self.step_pw += 1
            if self.arm and self.arm[0] == "provider":
                if self.arm[1] <= 0:
                    self._fire("provider")
                    return Crash()
                self.arm[1] -= 1
        return None

    def _fire(self, kind):
        self.dead = True
        self.arm = None
        self.fired = {"kind": kind, "step": self.run.case.step_no, "who": self.run.cur_who,
                      "step_provider_writes": self.step_pw, "step_storage_writes": self.step_sw}


class RestartRun(HistoryRun):
    """HistoryRun + down/up/crash.  Subclasses add oracles."""

    def __init__(self, trace, case_kw=None):
        super().__init__(trace, case_kw=case_kw)
        self.cur_who = None
        self.cplan = CrashPlan(self)
        self.restarts = []          # dict(mode, quiet, pending, offline_ops, calls_at)
        self.crashes = []
        self.is_down = False
        self._offline_ops = 0
        if self.case is not None:
            self._install()

    def _install(self):
        self.case.fault_plan = self.cplan
        self.case.storage.on_write = self.cplan.on_write

    # ---- engine lifecycle
    def _fresh_process_view(self):
        """What a new process sees: provider objects whose event cursor starts at 'latest', connected."""
        for p in self.case.prov:
            if not p.connected:
                p.connect(p._creds)
            p._cursor = p._latest_cursor

    def go_down(self, graceful=True):
        case = self.case
        self._was_quiet = None
        self._pending = None
        if graceful:
            try:
                self._pending = case.cs.state.changeset_len
                self._was_quiet = case.quiet()
            except Exception:
                pass
        case.drop_engine(graceful=graceful)
        for p in case.prov:          # the users' own sessions are not the engine's: they stay connected
            if not p.connected:
                p.connect(p._creds)
        self.is_down = True
        self._offline_ops = 0

    def come_up(self, mode):
        case = self.case
        rows = case.storage.data["rows"]
        if mode == "no_cursor":
            for tag in list(rows):
                if "_cursor_" in tag:
                    rows[tag] = {}
        elif mode == "bad_cursor":
            for tag in list(rows):
                if "_cursor_" in tag:
                    for eid in rows[tag]:
                        rows[tag][eid] = "bogus-cursor"
        elif mode == "no_walk_marker":
            for tag in list(rows):
                if "_walked_" in tag:
                    rows[tag] = {}
        elif mode != "intact":
            raise InvalidTrace("unknown restart mode %r" % mode)
        self._fresh_process_view()
        self.cplan = CrashPlan(self)
        # a new storage object over the same data (the old one belongs to the dead process)
        from .engine import DictStorage
        case.storage = DictStorage(case.storage.data)
        self._install()
        case.build_engine()
        self.is_down = False
        self.restarts.append({"mode": mode, "quiet": self._was_quiet, "pending": self._pending,
                              "offline_ops": self._offline_ops, "calls_at": len(case.calls), "user_ops_at": self.stats["user_ops"]})
        self.after_restart(self.restarts[-1])

    def after_restart(self, info):
        pass

    def _after_crash(self):
        fired = self.cplan.fired
        self.crashes.append(fired)
        self.go_down(graceful=False)
        self.come_up("intact")

    # ---- actions
    def special(self, act):
        k = act[0]
        if k == "down":
            if self.is_down:
                raise InvalidTrace("already down")
            self.go_down()
        elif k == "up":
            if not self.is_down:
                raise InvalidTrace("not down")
            self.come_up(act[1])
        elif k == "crash":
            if self.is_down:
                raise InvalidTrace("crash while down")
            self.cplan.arm = [act[1], act[2]]
        else:
            raise InvalidTrace("unknown action %r" % (act,))

    def do_user(self, act):
        if self.is_down:
            self._offline_ops += 1
        super().do_user(act)

    def do_step(self, who):
        if self.is_down:
            raise InvalidTrace("step while the engine is down")
        self.cur_who = who
        self.cplan.step_sw = 0
        self.cplan.step_pw = 0
        super().do_step(who)
        if self.cplan.dead:
            self._after_crash()

    def do_settle(self, final=False):
        if self.is_down:
            raise InvalidTrace("settle while the engine is down")
        return super().do_settle(final)
