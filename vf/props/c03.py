"""C03  One-sided changes mirror exactly; origin side untouched; no echo."""
from ..core import ok, violation
from ..gen import draw_cfg, gen_history, envelope_ok
from ..hist import HistoryRun, Stop
from .. import oracles as O

ID = "C03"
LEVEL = "exploration"
RULE = ("Hypothesis-generated one-sided histories (user ops create/write/rename file+folder/delete/rmtree/mkdir on one "
        "drawn side, 4 id/path flavours, arbitrary interleaving with single EL/ER/S production-loop iterations and "
        "settles, hazard-free envelope).  Non-trivial = >=3 user ops incl. at least one rename/delete/overwrite and "
        ">=1 engine step between two user ops; distinct = distinct trace digest.")
ASSUMPTIONS = [
    "part starved: an edit is taken in, the user continues on the same objects (name take-over / move+edit), then only the sync loop runs with time passing, then the other side's intake, and the origin's remaining events last; same oracles",
    "mock providers (id- and path-style, case-sensitive) stand in for real accounts",
    "hazards exclude by construction: PATH_REUSE, DIRMOVE_ISOLATED, DIRMOVE_TOMB (open known findings, see known_findings.json)",
    "virtual clock; quiet decided by a 400-round step bound, not wall-clock",
]


def budget(tier):
    q = tier == "quick"
    return [{"workers": 16, "examples": 400 if q else 6000},
            {"part": "starved", "workers": 16, "examples": 60 if q else 2000}]


def gen(d, tier):
    cfg = draw_cfg(d, allow_ci=True)
    origin = d.int(0, 1)
    cfg["origin"] = origin
    n_ops = (3, 8) if tier == "quick" else (3, 16)
    acts, world = gen_history(d, cfg, sides=(origin,), n_ops=n_ops, sizes=True)
    return {"cfg": cfg, "acts": acts, "meta": {"excluded": dict(world.excluded)}}


def in_domain(trace):
    return envelope_ok(trace, sides=(trace["cfg"]["origin"],))


class Run(HistoryRun):
    def __init__(self, trace):
        super().__init__(trace)
        self.origin = trace["cfg"]["origin"]
        self._before = None

    def before_step(self, who):
        self._before = self.case.snap(self.origin)

    def after_step(self, who):
        e = O.escaped(self.case)
        if e:
            raise Stop(violation("exception_escaped", e))
        after = self.case.snap(self.origin)
        if after != self._before:
            raise Stop(violation("origin_untouched", "engine step %s changed the origin side: %s" % (
                who, O.diff_trees(self._before, after, "before", "after")[:4])))

    def at_quiet(self, rounds, final):
        if self.exp is None:
            return
        e = O.equals_expected(self.case, self.exp)
        if e:
            raise Stop(violation("mirror_exact", e))

    def finish(self):
        e = O.no_echo(self.case)
        if e:
            raise Stop(violation("no_echo", e))
        st = self.stats
        nt = st["user_ops"] >= 3 and bool(st["kinds"] & {"rename", "delete", "write", "rmtree"}) and st["step_between_ops"]
        labs = ["flavour:%s/%s" % (self.trace["cfg"]["L"], self.trace["cfg"]["R"]), "origin:%d" % self.origin]
        labs += ["op:" + k for k in sorted(st["kinds"])]
        return ok(nontrivial=nt, labels=labs)


def run(trace):
    for a in trace["acts"]:
        if a[0] == "u" and a[1] != trace["cfg"]["origin"]:
            from ..core import invalid
            return invalid("user op on the non-origin side")
    return Run(trace).execute()


# ----------------------------------------------------------------------------- part: starved origin intake
# The engine is told about an edit, then the user goes on (a name take-over that involves the edited file, or a move
# plus edit), and for a while only the sync loop runs -- with time passing -- before the other side's echoes and,
# last of all, the origin's own remaining events are taken in.  Same oracles as the main part.
def gen_starved(d, tier):
    from ..gen import emit_base, _try, step_act
    from ..model import World
    cfg = draw_cfg(d, allow_ci=False)
    origin = d.int(0, 1)
    cfg["origin"] = origin
    world = World(path_style=(cfg["L"] == "path", cfg["R"] == "path"))
    world.tempo = d.choice((0.02, 0.3))
    acts = []
    emit_base(d, world, acts, origin)
    mine, other = ("EL", "ER") if origin == 0 else ("ER", "EL")
    files = world.side[origin].files()
    x = d.choice(files)
    if not _try(world, acts, origin, ("write", x, world.new_content())):
        return {"cfg": cfg, "acts": acts + [["settle"]]}
    acts.append(["step", mine]); world.note_step(mine)
    news = world.new_paths(origin)
    victims = [f for f in files if f != x]
    if victims and news and d.chance(3, 4):
        v = d.choice(victims)
        if _try(world, acts, origin, ("rename", v, d.choice(news))):
            _try(world, acts, origin, ("rename", x, v))
    elif news:
        n = d.choice(news)
        if _try(world, acts, origin, ("rename", x, n)):
            _try(world, acts, origin, ("write", n, world.new_content()))
    for _ in range(d.int(2, 10)):
        acts.append(["step", "S", world.tempo])
    acts.append(["step", other]); world.note_step(other)
    for _ in range(d.int(1, 6)):
        acts.append(["step", "S", world.tempo])
    acts.append(["settle"])
    return {"cfg": cfg, "acts": acts, "meta": {"excluded": dict(world.excluded)}}


PARTS = {"starved": (gen_starved, run)}
