"""C15  Thread safety: sync state only touched under its lock; threaded runs converge.

main   : deterministic lock-ownership monitor.  SyncState.updated (the hook every entry write goes through) is
         wrapped; whenever it runs while the calling thread does not own state.lock, the innermost cloudsync
         caller is recorded.  Driven by (a) generated CloudSync histories with conflict gadgets and (b) generated
         SmartCloudSync histories with application-thread calls (request / un-request / listing / walk / change_count).
threads: the engine runs as in production (cs.start(): one sync thread, two event threads, a notification thread)
         with a drawn interpreter switch interval; users act from the main thread, the application thread calls
         public methods; after the engine has gone quiet it is stopped and the trees are compared with the expected
         tree; the monitor is active throughout.  Interleavings are whatever the OS produces (sampled).
"""
from .. import shims  # noqa: F401  (must precede any cloudsync import)
import sys
import time
import threading

import cloudsync.sync.state as st_mod
from cloudsync import CloudSync
from cloudsync.smartsync import SmartCloudSync

from ..core import ok, violation, invalid
from ..gen import draw_cfg, gen_history, envelope_ok, FLAVOURS
from ..hist import HistoryRun, Stop
from ..engine import InvalidTrace
from .. import oracles as O
from . import c01, c20, c11

ID = "C15"
LEVEL = "exploration"
RULE = ("main: the lock-ownership monitor (every SyncState.updated call must come from a thread that owns state.lock; "
        "the hold under which an entry synchronisation started must not be released before it ends) "
        "over Hypothesis-generated CloudSync histories (C01 domain, with conflict gadgets) and SmartCloudSync histories "
        "(C20 domain: requests, un-requests, listings issued from the application thread, plus walk and change_count "
        "calls).  threads: generated one-sided / disjoint two-sided envelope histories executed against cs.start() with "
        "real threads, switch interval drawn from 1e-6..1e-3 s, application-thread calls in between; quiet detected by "
        "polling (change set empty and both providers' cursors at latest for 5 consecutive polls; 20 s wall-clock cap "
        "=> inconclusive, never a violation); then stop(), compare both roots with the expected tree, check index "
        "integrity; monitor active throughout.  Non-trivial: main - >=1 state write observed from an application-thread "
        "API call or >=3 engine steps that wrote state; threads - >=2 manager threads performed >=1 state write each "
        "while a user op was in flight.")
ASSUMPTIONS = [
    "part threads: waiting for quiet is capped at 30 s (inconclusive beyond); if work is pending and for 12 s no engine thread makes a provider call, consumes an event or changes the pending set, the run is a violation (the loops are not running), not a timeout",
    "CPython RLock._is_owned() is used to ask whether the current thread owns the state lock",
    "part 'threads' samples OS schedules; the deterministic monitor (main) is what decides the lock clause",
    "application threads do not call CloudSync.busy while the engine threads run in part 'threads' (it shares the event queue with the event thread)",
]

_HITS = []
_WRITES = {}
_MON = {"on": False, "state": None}
_orig_updated = st_mod.SyncState.updated


def _updated(self, ent, side, key, val):
    if _MON["on"] and self is _MON["state"] and not self._loading:
        th = threading.current_thread().name
        _WRITES[th] = _WRITES.get(th, 0) + 1
        if not self.lock._is_owned():
            f = sys._getframe(1)
            where = None
            chain = []
            while f is not None and len(chain) < 12:
                fn = f.f_code.co_filename
                if "/cloudsync/" in fn and "/vf/" not in fn:
                    chain.append("%s:%s" % (fn.rsplit("/", 1)[-1], f.f_code.co_name))
                f = f.f_back
            # outermost cloudsync frame = the public entry point that forgot the lock
            where = chain[-1] if chain else "?"
            _HITS.append((th, where, key, " <- ".join(chain[:6])))
    return _orig_updated(self, ent, side, key, val)


st_mod.SyncState.updated = _updated


class MonitoredLock:
    """Stand-in for state.lock (an RLock) that notices when the lock is let go in the middle of an atomic step
    (one event application / one entry synchronisation): the hold taken at the start of the step must last until
    the step ends, otherwise another thread can change the entry half-way through."""

    def __init__(self, inner):
        self._inner = inner
        self._tl = threading.local()

    def _depth(self):
        return getattr(self._tl, "depth", 0)

    def acquire(self, *a, **kw):
        r = self._inner.acquire(*a, **kw)
        if r:
            self._tl.depth = self._depth() + 1
        return r

    def release(self):
        self._inner.release()
        self._tl.depth = self._depth() - 1
        if self._tl.depth == 0 and getattr(self._tl, "atomic", 0) > 0 and _MON["on"]:
            f = sys._getframe(1)
            chain = []
            while f is not None and len(chain) < 8:
                fn = f.f_code.co_filename
                if "/cloudsync/" in fn and "/vf/" not in fn:
                    chain.append("%s:%s" % (fn.rsplit("/", 1)[-1], f.f_code.co_name))
                f = f.f_back
            _HITS.append((threading.current_thread().name, "atomic:" + (chain[0] if chain else "?"), "lock",
                          "state lock released inside an atomic step: " + " <- ".join(chain[:6])))

    __enter__ = acquire

    def __exit__(self, *a):
        self.release()

    def _is_owned(self):
        return self._inner._is_owned()

    def enter_atomic(self):
        self._tl.atomic = getattr(self._tl, "atomic", 0) + 1

    def leave_atomic(self):
        self._tl.atomic = getattr(self._tl, "atomic", 0) - 1


def _wrap_atomic(obj, name, lock):
    orig = getattr(obj, name)

    def wrapper(*a, **kw):
        # the step proper starts once the caller holds the lock (do() takes it before _sync_one_entry;
        # _process_event takes it itself): count only releases below the depth at which the step was entered
        lock.enter_atomic()
        try:
            return orig(*a, **kw)
        finally:
            lock.leave_atomic()
    setattr(obj, name, wrapper)


def monitor_on(state, cs=None):
    del _HITS[:]
    _WRITES.clear()
    _MON["state"] = state
    _MON["on"] = True
    if cs is not None and not isinstance(state.lock, MonitoredLock):
        lock = MonitoredLock(state.lock)
        state.lock = lock
        _wrap_atomic(cs.smgr, "_sync_one_entry", lock)


def monitor_off():
    _MON["on"] = False
    _MON["state"] = None


# ----------------------------------------------------------------------------- main: deterministic monitor
def budget(tier):
    q = tier == "quick"
    return [{"workers": 16, "examples": 120 if q else 3000},
            {"part": "threads", "workers": 16, "examples": 5 if q else 120},
            {"part": "queue", "workers": 16, "examples": 30 if q else 1000}]


def gen(d, tier):
    if d.bool():
        tr = c20.gen(d, tier)
        tr["kind"] = "smart"
        # sprinkle application-thread calls that are not requests
        acts = []
        for a in tr["acts"]:
            acts.append(a)
            if d.chance(1, 5):
                acts.append(["app", d.choice(("walk0", "walk1", "change_count", "smart_info"))])
        tr["acts"] = acts
        return tr
    tr = c01.gen(d, tier)
    tr["kind"] = "plain"
    acts = []
    for a in tr["acts"]:
        acts.append(a)
        if d.chance(1, 6):
            acts.append(["app", d.choice(("walk0", "walk1", "change_count"))])
    tr["acts"] = acts
    return tr


def in_domain(trace):
    acts = [a for a in trace["acts"] if a[0] != "app"]
    if trace.get("kind") == "smart":
        return c20.in_domain(dict(trace, acts=acts))
    return envelope_ok(dict(trace, acts=acts))


def _app_call(case, what):
    cs = case.cs
    case.in_engine = True
    try:
        if what in ("walk0", "walk1"):
            side = int(what[-1])
            if cs.emgrs[side]._root_validated:
                cs.walk(side)
        elif what == "change_count":
            cs.smgr.change_count()
            cs.smgr.change_count(unverified=True)
        elif what == "smart_info" and hasattr(cs, "smart_info_path"):
            cs.smart_info_path(case.abspath(0, "/r1"))
    finally:
        case.in_engine = False


class _MonMixin:
    def _mon_check(self, where):
        if _HITS:
            th, site, key, chain = _HITS[0]
            raise Stop(violation("lock_owned:" + site, "%s: sync state written (field %r) without holding the state lock, from thread %s via %s" % (where, key, th, chain)))


class PlainRun(_MonMixin, HistoryRun):
    def __init__(self, trace):
        super().__init__(trace)
        self.app_writes = 0
        self.step_writes = 0
        if self.case is not None:
            monitor_on(self.case.cs.state, self.case.cs)

    def special(self, act):
        if act[0] != "app":
            raise InvalidTrace("unknown action %r" % (act,))
        w0 = sum(_WRITES.values())
        _app_call(self.case, act[1])
        self.app_writes += sum(_WRITES.values()) - w0
        self._mon_check("application call %s" % act[1])

    def before_step(self, who):
        self._w0 = sum(_WRITES.values())

    def after_step(self, who):
        e = O.escaped(self.case)
        if e:
            raise Stop(violation("exception_escaped", e))
        if sum(_WRITES.values()) > self._w0:
            self.step_writes += 1
        self._mon_check("engine step %s" % who)

    def finish(self):
        return ok(nontrivial=self.app_writes > 0 or self.step_writes >= 3, labels=["plain"] + (["app_thread_wrote_state"] if self.app_writes else []))

    def execute(self):
        try:
            return super().execute()
        finally:
            monitor_off()


class SmartRun(_MonMixin, c20.Run):
    def __init__(self, trace):
        super().__init__(trace)
        self.app_writes = 0
        self.step_writes = 0
        if self.case is not None:
            monitor_on(self.case.cs.state, self.case.cs)

    def special(self, act):
        w0 = sum(_WRITES.values())
        if act[0] == "app":
            _app_call(self.case, act[1])
        else:
            super().special(act)
        self.app_writes += sum(_WRITES.values()) - w0
        self._mon_check("application call %r" % (act[:2],))

    def before_step(self, who):
        self._w0 = sum(_WRITES.values())

    def after_step(self, who):
        super().after_step(who)
        if sum(_WRITES.values()) > self._w0:
            self.step_writes += 1
        self._mon_check("engine step %s" % who)

    def finish(self):
        out = super().finish()
        out["nontrivial"] = self.app_writes > 0 or self.step_writes >= 3
        out["labels"] = ["smart"] + (["app_thread_wrote_state"] if self.app_writes else [])
        return out

    def execute(self):
        try:
            return super().execute()
        finally:
            monitor_off()


def run(trace):
    if trace.get("kind") == "smart":
        return SmartRun(trace).execute()
    return PlainRun(trace).execute()


# ----------------------------------------------------------------------------- threads: sampled real schedules
def gen_threads(d, tier):
    cfg = draw_cfg(d)
    two = d.chance(1, 3)
    sides = (0, 1) if two else (d.int(0, 1),)
    cfg["switch"] = d.choice((1e-6, 1e-5, 1e-4, 1e-3))
    acts, world = gen_history(d, cfg, sides=sides, n_ops=(3, 7), with_base=True, w_step=0, w_settle=2, w_macro=0)
    out = []
    for a in acts:
        out.append(a)
        if a[0] == "u" and d.chance(1, 3):
            out.append(["pause", d.choice((0.0, 0.001, 0.005))])
        if a[0] == "u" and d.chance(1, 5):
            out.append(["app", d.choice(("walk0", "walk1", "change_count"))])
    return {"cfg": cfg, "acts": out, "meta": {"excluded": dict(world.excluded)}}


def _wait_quiet(case, cap=30.0, stall=12.0):
    """True = quiet; False = still busy when the cap ran out (inconclusive); "stalled" = work is pending but for
    `stall` seconds no engine thread issued a single provider call, consumed an event or changed the pending set
    (that is not slowness: the loops are not running)."""
    t0 = time.time()
    okn = 0
    last_sig, last_change = None, time.time()
    while time.time() - t0 < cap:
        cs = case.cs
        q = cs.state.changeset_len == 0 and all(p._cursor >= p._latest_cursor for p in case.prov) \
            and not cs.emgrs[0]._queue and not cs.emgrs[1]._queue \
            and all(getattr(em, "_root_validated", True) and not getattr(em, "_first_do", False) for em in cs.emgrs)
        okn = okn + 1 if q else 0
        if okn >= 5:
            return True
        sig = (len(case.calls), cs.state.changeset_len, tuple(p._cursor for p in case.prov))
        if sig != last_sig:
            last_sig, last_change = sig, time.time()
        elif not q and time.time() - last_change >= stall:
            return "stalled"
        time.sleep(0.004)
    return False


def _stall_msg(case):
    cs = case.cs
    return ("cs.start() is running, work is pending (pending set %d, unread events %s) but for 12 s no engine thread made "
            "a provider call or consumed an event; threads alive: %s" % (
                cs.state.changeset_len, [p._latest_cursor - p._cursor for p in case.prov],
                sorted(t.name for t in threading.enumerate() if t is not threading.current_thread())))


def run_threads(trace):
    from ..model import Tree, ModelInvalid
    shims.reset(trace["cfg"].get("salt", 0))
    old_switch = sys.getswitchinterval()
    r = HistoryRun({"cfg": trace["cfg"], "acts": []})
    if r.crash:
        return violation("engine_construct", r.crash)
    case = r.case
    exp = Tree()
    started = False
    try:
        sys.setswitchinterval(trace["cfg"].get("switch", 1e-4))
        monitor_on(case.cs.state, case.cs)
        case.in_engine = True           # every provider call the engine threads make is an engine call
        case.cs.start()
        started = True
        inflight_writers = set()
        for a in trace["acts"]:
            if a[0] == "u":
                before = dict(_WRITES)
                try:
                    exp.apply(a[2], *a[3:])
                except ModelInvalid:
                    return invalid("model")
                # user ops go straight to the provider (their calls are logged as engine calls here; irrelevant)
                case.in_engine = False
                try:
                    case.user(a[1], a[2], *a[3:])
                finally:
                    case.in_engine = True
                time.sleep(0.0005)
                for th, n in _WRITES.items():
                    if n > before.get(th, 0) and th != threading.current_thread().name:
                        inflight_writers.add(th)
            elif a[0] == "pause":
                time.sleep(a[1])
            elif a[0] == "app":
                _app_call(case, a[1])
                case.in_engine = True
            elif a[0] == "settle":
                wq = _wait_quiet(case)
                if wq == "stalled":
                    return violation("threaded_makes_progress", _stall_msg(case))
                if not wq:
                    return ok(labels=["inconclusive_timeout"])
        wq = _wait_quiet(case)
        if wq == "stalled":
            return violation("threaded_makes_progress", _stall_msg(case))
        if not wq:
            return ok(labels=["inconclusive_timeout"])
        case.cs.stop(forever=True, wait=True)
        started = False
        if _HITS:
            th, site, key, chain = _HITS[0]
            return violation("lock_owned:" + site, "threaded run: sync state written (field %r) without the state lock from thread %s via %s" % (key, th, chain))
        e = O.equals_expected(case, exp)
        if e:
            return violation("threaded_converges", e)
        err = c11.integrity(case.cs.state)
        if err:
            return violation("threaded_index_integrity", err)
        mgr_threads = {t for t in _WRITES if t != threading.current_thread().name}
        return ok(nontrivial=len(inflight_writers) >= 2 or len(mgr_threads) >= 2,
                  labels=["threads", "switch:%g" % trace["cfg"].get("switch", 0), "writer_threads:%d" % len(mgr_threads)])
    finally:
        monitor_off()
        sys.setswitchinterval(old_switch)
        if started:
            try:
                case.cs.stop(forever=True, wait=True)
            except Exception:
                pass
        case.in_engine = False
        case.close()


# ----------------------------------------------------------------------------- queue: walk() while a drain is running
def gen_queue(d, tier):
    L, R = d.choice(FLAVOURS)
    side = d.int(0, 1)
    n = d.int(1, 6)
    return {"cfg": {"L": L, "R": R, "salt": d.int(0, 7)}, "side": side, "first": n, "second": d.int(1, 3),
            "inject_after": d.int(1, n + 1), "folder": d.bool()}


def run_queue(trace):
    """The application calls CloudSync.walk() (which queues events on the event manager) at the very moment that
    manager is half way through draining an earlier walk -- the harness owns that moment: it makes the second walk from
    inside the k-th _process_event of the drain, which is what another thread queueing at that instant amounts to.
    The side's ordinary events are held back, so the engine knows the new files from the walks only.  Whatever was
    queued has to be applied: every walked file reaches the other side."""
    cfg = trace["cfg"]
    side, dest = trace["side"], 1 - trace["side"]
    r = HistoryRun({"cfg": cfg, "acts": []})
    if r.crash:
        return violation("engine_construct", r.crash)
    case = r.case
    try:
        held = []

        def hold(case_, prov, orig):
            if prov._vf_side == side:
                held.extend(orig(prov))
                return iter(())
            return orig(prov)
        case.settle()
        case.event_mangler = hold
        base = "/w" if trace["folder"] else ""
        if trace["folder"]:
            case.user(side, "mkdir", "/w")
        names1 = [base + "/f%d" % i for i in range(trace["first"])]
        names2 = [base + "/g%d" % i for i in range(trace["second"])]
        for p in names1:
            case.user(side, "create", p, "one" + p)
        cs = case.cs
        em = cs.emgrs[side]

        def walk():
            case.in_engine = True
            try:
                cs.walk(side)
            finally:
                case.in_engine = False
        walk()
        orig_pe = em._process_event
        count = [0]

        def pe(event, from_walk=False):
            ret = orig_pe(event, from_walk=from_walk)
            count[0] += 1
            if count[0] == trace["inject_after"]:
                was = case.in_engine
                case.in_engine = False
                for p in names2:
                    case.user(side, "create", p, "two" + p)
                case.in_engine = was
                cs.walk(side)           # "another thread" queues while this drain is in progress
            return ret
        em._process_event = pe
        who = "EL" if side == 0 else "ER"
        r.do_step(who)
        injected = count[0] >= trace["inject_after"]
        em._process_event = orig_pe
        rounds = case.settle()
        e = O.escaped(case)
        if e:
            return violation("exception_escaped", e)
        if rounds is None:
            return violation("stall", "engine not quiet after a walk")
        got = case.snap(dest)
        missing = [p for p in names1 + (names2 if injected else []) if p not in got]
        if missing:
            return violation("queued_events_applied", "files announced to the engine by CloudSync.walk() never reached the other side: %s (second walk queued during the drain after event #%d: %s)" % (
                missing, trace["inject_after"], injected))
        return ok(nontrivial=injected, labels=["queue", "injected" if injected else "not_injected"])
    finally:
        case.close()


PARTS = {"threads": (gen_threads, run_threads), "queue": (gen_queue, run_queue)}
