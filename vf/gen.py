"""Hypothesis-driven generators for engine histories.

Every random choice goes through `D` (a thin wrapper over `st.data()` draws), so
that a case is a pure function of the Hypothesis choice sequence and shrinks /
replays with it.  Generation needs only the pure model (vf/model.py): the engine
is not consulted, so `gen(...)` returns a complete trace that `run(trace)` then
executes literally.
"""
from hypothesis import strategies as st

from .model import World

FLAVOURS = (("id", "id"), ("path", "id"), ("id", "path"), ("path", "path"))
OP_KINDS = (("create", 5), ("write", 4), ("rename_file", 4), ("rename_dir", 2), ("delete", 3),
            ("rmtree", 1), ("mkdir", 3))
BASE_OPS = (("mkdir", "/d"), ("mkdir", "/e"), ("mkdir", "/d/e"),
            ("create", "/a"), ("create", "/d/a"), ("create", "/d/e/b"), ("create", "/e/c"))


class D:
    """Draw helper."""

    def __init__(self, data):
        self._draw = data.draw

    def int(self, lo, hi):
        return self._draw(st.integers(lo, hi))

    def bool(self):
        return self._draw(st.booleans())

    def choice(self, seq):
        seq = list(seq)
        return seq[self._draw(st.integers(0, len(seq) - 1))]

    def weighted(self, pairs):
        pairs = list(pairs)
        total = sum(w for _, w in pairs)
        x = self._draw(st.integers(0, total - 1))
        for v, w in pairs:
            if x < w:
                return v
            x -= w
        raise AssertionError

    def chance(self, num, den):
        return self._draw(st.integers(0, den - 1)) < num

    def draw(self, strategy):
        return self._draw(strategy)


def draw_cfg(d, flavours=FLAVOURS, **extra):
    L, R = d.choice(flavours)
    cfg = {"L": L, "R": R, "salt": d.int(0, 7)}
    cfg.update(extra)
    return cfg


def content_for(d, world, sizes):
    if sizes and d.chance(1, 4):
        return world.new_content(d.choice((0, 1, 700, 1500, 3000)))
    return world.new_content()


def emit_user_op(d, world, acts, side, kinds=OP_KINDS, sizes=False):
    """Draw one hazard-free user op for `side`; returns the op tuple or None."""
    kinds = list(kinds)
    while kinds:
        kind = d.weighted(kinds)
        kinds = [(k, w) for k, w in kinds if k != kind]
        allowed = world.allowed(side, kind)
        if not allowed:
            continue
        c = d.choice(allowed)
        if c[0] in ("create", "write"):
            c = (c[0], c[1], content_for(d, world, sizes))
        acts.append(["u", side] + list(c))
        world.apply(side, *c)
        return c
    return None


def emit_base(d, world, acts, base_side):
    for op in BASE_OPS:
        if op[0] == "create":
            op = (op[0], op[1], world.new_content())
        acts.append(["u", base_side] + list(op))
        world.apply(base_side, *op)
    acts.append(["settle"])
    world.settle()


def gen_history(d, cfg, *, sides=(0, 1), n_ops=(3, 8), hazards=None, with_base=None, sizes=False,
                w_op=5, w_step=4, w_settle=1, kinds=OP_KINDS):
    """Envelope history: hazard-free user ops on `sides` interleaved arbitrarily with engine steps."""
    world = World(path_style=(cfg["L"] == "path", cfg["R"] == "path"), hazards=hazards)
    acts = []
    if with_base is None:
        with_base = d.chance(4, 5)
    if with_base:
        emit_base(d, world, acts, d.choice(sides))
    n = d.int(*n_ops)
    done = 0
    guard = 0
    while done < n and guard < 10 * n + 20:
        guard += 1
        k = d.weighted((("op", w_op), ("step", w_step), ("settle", w_settle)))
        if k == "op":
            if emit_user_op(d, world, acts, d.choice(sides), kinds=kinds, sizes=sizes) is not None:
                done += 1
            else:
                acts.append(["settle"])
                world.settle()
        elif k == "step":
            acts.append(["step", d.choice(("EL", "ER", "S"))])
        else:
            acts.append(["settle"])
            world.settle()
    acts.append(["settle"])
    world.settle()
    return acts, world
