#!/bin/bash
# usage: tools/allquick.sh [seed] [ids...]   -> one line per check: id rc harness-error-count summary
cd "$(dirname "$0")/.."
seed=${1:-1}; shift
ids=${@:-C01 C02 C03 C04 C05 C06 C07 C08 C09 C10 C11 C12 C13 C14 C15 C16 C17 C18 C19 C20}
for p in $ids; do
  VERIF_SEED=$seed ./check $p quick > /tmp/allquick.$$ 2>/dev/null; rc=$?
  echo "$p rc=$rc harness=$(grep -c '^HARNESS' /tmp/allquick.$$) viol=$(grep -c '^VIOLATION' /tmp/allquick.$$) | $(grep -v '^KNOWN\|^HARNESS\|^VIOLATION\|^violated\|^note' /tmp/allquick.$$ | tail -1)"
done
rm -f /tmp/allquick.$$ ; rm -rf replays/found
