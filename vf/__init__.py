"""Verification framework for AtakamaLLC/cloudsync (property-based testing / fuzzing).

Import order matters: `vf.shims` must be imported before any engine object is
built; it puts /repo first on sys.path and asserts cloudsync is loaded from
there (checks must rebuild from /repo's working tree, never site-packages).
"""
