"""Oracle library (DESIGN 1.5).  Each function returns None when the clause holds
or a short human-readable string describing the counter-example."""
from .engine import blob, MUTATORS
from .shims import CLOCK


def tree_bytes(tree):
    """Model tree (relpath -> None|content token) -> relpath -> None|bytes."""
    return {p: (None if v is None else blob(v)) for p, v in tree.t.items()}


def fmt_tree(t):
    return {p: ("DIR" if v is None else (v[:24].decode("latin1") + ("..(%d)" % len(v) if len(v) > 24 else "")))
            for p, v in sorted(t.items())}


def is_conflicted(relpath):
    return ".conflicted" in relpath.rsplit("/", 1)[-1]


def diff_trees(a, b, na="L", nb="R"):
    out = []
    for p in sorted(set(a) | set(b)):
        if p not in a:
            out.append("%s only on %s" % (p, nb))
        elif p not in b:
            out.append("%s only on %s" % (p, na))
        elif (a[p] is None) != (b[p] is None):
            out.append("%s type differs" % p)
        elif a[p] != b[p]:
            out.append("%s content differs (%s=%r %s=%r)" % (p, na, a[p][:16], nb, b[p][:16]))
    return out


def converged(case):
    """C01: same relpaths, types and bytes on both roots, ignoring entries whose basename contains '.conflicted'."""
    a = {p: v for p, v in case.snap(0).items() if not is_conflicted(p)}
    b = {p: v for p, v in case.snap(1).items() if not is_conflicted(p)}
    # children of a '.conflicted' folder are one-sided extras as well
    a = {p: v for p, v in a.items() if not any(is_conflicted(x) for x in p.split("/"))}
    b = {p: v for p, v in b.items() if not any(is_conflicted(x) for x in p.split("/"))}
    d = diff_trees(a, b)
    if d:
        return "sides differ: " + "; ".join(d[:6])
    return None


def equals_expected(case, exp_tree):
    """C03/C04/C06: both roots == expected tree, and no '.conflicted' name anywhere."""
    want = tree_bytes(exp_tree)
    for side, nm in ((0, "L"), (1, "R")):
        got = case.snap(side)
        bad = [p for p in got if ".conflicted" in p]
        if bad:
            return "'.conflicted' artefact on %s: %s" % (nm, bad[:3])
        d = diff_trees(want, got, "expected", nm)
        if d:
            return "%s != expected: %s" % (nm, "; ".join(d[:6]))
    return None


def no_loss(case):
    """C02/C07/C10: every unreleased version a user wrote is the content of some file on some side."""
    present = set()
    for side in (0, 1):
        for p, v in case.snap(side).items():
            if v is not None:
                present.add(v)
    lost = [w for w in case.written if w not in case.released and w not in present]
    if lost:
        return "content lost: %r" % [w[:16] for w in lost[:4]]
    return None


def no_echo(case, rounds=3):
    """C03: after quiet, further rounds (and a virtual hour) issue no engine-originated mutating call."""
    n0 = len(case.mutations())
    for _ in range(rounds):
        for who in ("EL", "ER", "S"):
            case.step(who)
    CLOCK.sleep(3600)
    for _ in range(rounds):
        for who in ("EL", "ER", "S"):
            case.step(who)
    extra = case.mutations()[n0:]
    if extra:
        return "engine wrote after quiet: %s" % [(c["side"], c["name"], c["path"], c["dst"]) for c in extra[:4]]
    return None


def escaped(case):
    if case.escaped:
        return "exception escaped a service step: %r" % (case.escaped[:2],)
    return None
