"""C07  Crash consistency: dying before any storage write / after any provider write loses nothing."""
from ..core import ok, violation
from ..gen import draw_cfg, gen_history, envelope_ok
from ..restart import RestartRun
from ..hist import Stop
from .. import oracles as O

ID = "C07"
LEVEL = "fault_enumeration"
RULE = ("Hypothesis-generated envelope histories (one-sided, or two-sided disjoint; 4 id/path flavours; arbitrary "
        "step interleaving).  main: 1-2 crash arms placed anywhere (die immediately BEFORE the k-th storage write / "
        "immediately AFTER the k-th engine-issued provider mutation), restart over the storage and provider contents "
        "of that instant, remaining user ops continue.  enum: for each generated history a dry run counts storage "
        "writes Ns and provider mutations Np, then the history is re-run once per crash point (quick: all provider "
        "points up to 16 + 8 evenly spread storage points; thorough: all Ns+Np); half of the enum histories are 'batch windows' "
        "(user ops of a window precede its steps; no re-touch guard).  Oracle (statement only): quiet within 400 rounds, both roots equal "
        "modulo '.conflicted', every unreleased user-written version still present, one-sided => no '.conflicted' "
        "name anywhere.  Non-trivial = the crash hit a sync step that had already done >=1 provider or storage write; "
        "distinct = distinct trace digest (enum: distinct history).")
ASSUMPTIONS = [
    "mock providers; storage = harness DictStorage whose writes are atomic (a crash before a write leaves the row untouched)",
    "the dying process makes no further storage/provider call after the crash point (every later call raises)",
    "a new process sees both providers' event cursors at 'latest' and restores its position from storage",
    "CRASH_THEN_TOUCH_NEW: after a crash arm no user op of that window touches an object created or written in that window (open findings KF-29, KF-27)",
    "CRASH_DIRMOVE_PATHSTYLE: no crash in a window that renames a folder when either side is path-style (open finding KF-30: the multi-row commit of a folder rename is not atomic)",
    "PATH_REUSE is strict in every part (no re-use of a name vacated in the same window, not even id/id same-type): open finding KF-42 (a side-state takeover is committed as two separate row writes)",
    "part enum, batch windows: all user ops of a window precede its engine steps, so no user op follows the crash inside its window and the re-touch guard is not applied there (write+rename, create+write of one object are generated)",
    "envelope hazards PATH_REUSE, DIRMOVE_ISOLATED, DIRMOVE_TOMB, XSIDE; the final tree is NOT required to equal the no-crash expectation (statement asks for convergence, no loss, no conflict artefacts)",
]


def budget(tier):
    q = tier == "quick"
    return [{"workers": 16, "examples": 110 if q else 5000},
            {"part": "enum", "workers": 16, "examples": 10 if q else 60}]


def _arm(d, world, acts):
    """Emit a crash arm; from here to the end of the window no op may touch an object created or written in this
    window (hazard CRASH_THEN_TOUCH_NEW, open findings KF-29 / KF-27).  Arms expire at the next quiet point."""
    if world.win.dirmoves and any(world.path_style):
        world.excluded["CRASH_DIRMOVE_PATHSTYLE"] += 1      # KF-30: no crash in a window that moved a folder on a path-style side
        return
    kind = d.choice(("storage", "provider"))
    acts.append(["crash", kind, d.int(0, 10 if kind == "storage" else 3)])
    world.guard_retouch = "window"
    world.crash_mode = True


def _strict(world):
    world.strict_reuse = True       # KF-42: no name re-use inside a window anywhere in the crash domain
    world.stale_strict = True       # a crash in the middle of an intake batch leaves only its first events applied (KF-43 fence)


def gen(d, tier):
    cfg = draw_cfg(d)
    two = d.chance(1, 3)
    sides = (0, 1) if two else (d.int(0, 1),)
    if not two:
        cfg["origin"] = sides[0]
    acts, world = gen_history(d, cfg, sides=sides, n_ops=(2, 7) if tier == "quick" else (2, 12), with_base=d.bool(),
                              w_extra=2, extra=_arm, world_init=_strict)
    return {"cfg": cfg, "acts": acts, "meta": {"excluded": dict(world.excluded)}}


def crash_guard_ok(trace, always=False):
    """Replays the trace on the model with the re-touch guard active after each crash arm (or always)."""
    from ..model import World, ModelInvalid
    cfg = trace["cfg"]
    world = World(path_style=(cfg.get("L") == "path", cfg.get("R") == "path"))
    world.guard_retouch = True if always else False
    world.crash_mode = True
    world.strict_reuse = True
    world.stale_strict = True
    for a in trace["acts"]:
        if a[0] == "u":
            op = tuple(a[2:])
            try:
                world.side[a[1]].check(*op)
            except ModelInvalid:
                return False
            if world.hazard(a[1], *op) is not None:
                return False
            world.apply(a[1], *op)
        elif a[0] == "settle":
            world.settle()
        elif a[0] == "crash" and not always:
            if world.win.dirmoves and any(world.path_style):
                return False
            world.guard_retouch = "window"
    return True


def in_domain(trace):
    if trace.get("batch"):
        return batch_ok(trace)
    acts = [a for a in trace["acts"] if a[0] != "crash"]
    sides = (0, 1) if "origin" not in trace["cfg"] else (trace["cfg"]["origin"],)
    if not envelope_ok(dict(trace, acts=acts), sides=sides, world_init=_strict):
        return False
    return crash_guard_ok(trace, always="point" in trace)


class Run(RestartRun):
    def after_step(self, who):
        e = O.escaped(self.case)
        if e:
            raise Stop(violation("exception_escaped", e))

    def at_quiet(self, rounds, final):
        if not (self.trace.get("enum") or "point" in self.trace):
            self.cplan.arm = None   # main part: arms expire at a quiet point (a crash belongs to the window it was placed in)
        self._check()

    def _check(self):
        e = O.converged(self.case)
        if e:
            raise Stop(violation("converged_after_crash", e))
        e = O.no_loss(self.case)
        if e:
            raise Stop(violation("no_loss", e))
        if "origin" in self.trace["cfg"]:
            for side in (0, 1):
                bad = [p for p in self.case.snap(side) if ".conflicted" in p]
                if bad:
                    raise Stop(violation("no_conflict_artefact", "one-sided history, yet %s appeared on side %d" % (bad[:3], side)))

    def finish(self):
        cfg = self.trace["cfg"]
        labs = ["flavour:%s/%s" % (cfg["L"], cfg["R"]), "one_sided" if "origin" in cfg else "two_sided"]
        nt = False
        for c in self.crashes:
            labs.append("crash:%s:in_%s" % (c["kind"], c["who"]))
            if c["who"] == "S" and (c["step_provider_writes"] or c["step_storage_writes"]):
                nt = True
                labs.append("crash_mid_sync_step")
        if not self.crashes:
            labs.append("no_crash_fired")
        return ok(nontrivial=nt, labels=sorted(set(labs)), crashes=len(self.crashes))


def run(trace):
    return Run(trace).execute()


# ----------------------------------------------------------------------------- enumeration of crash points
def gen_enum(d, tier):
    cfg = draw_cfg(d)
    two = d.chance(1, 3)
    sides = (0, 1) if two else (d.int(0, 1),)
    if not two:
        cfg["origin"] = sides[0]

    def init(world):
        world.guard_retouch = True      # a crash may land anywhere: the guard holds in every window
        world.crash_mode = True
        world.strict_reuse = True
        world.stale_strict = True
    if d.bool():
        return gen_batch(d, cfg, sides)
    acts, world = gen_history(d, cfg, sides=sides, n_ops=(2, 6), with_base=d.bool(), world_init=init)
    return {"cfg": cfg, "enum": True, "acts": acts, "meta": {"excluded": dict(world.excluded)}}


def gen_batch(d, cfg, sides):
    """Batch windows: in every window all user ops come first (plain envelope, NO re-touch guard: write+rename,
    create+write, rename+rename of one object are all fine), then engine steps, then settle.  Wherever the crash
    lands, no user op follows it within its window, so the guard that fences KF-29/KF-27 is not needed."""
    from ..gen import emit_base, emit_user_op, emit_macro
    from ..model import World
    world = World(path_style=(cfg["L"] == "path", cfg["R"] == "path"))
    world.crash_anywhere = True
    world.strict_reuse = True
    world.stale_strict = True
    acts = []
    if d.bool():
        emit_base(d, world, acts, d.choice(sides))
    for _ in range(d.int(1, 3)):
        n = d.int(1, 4)
        done = tries = 0
        while done < n and tries < 12:
            tries += 1
            if d.chance(1, 3):
                done += emit_macro(d, world, acts, d.choice(sides))
            elif emit_user_op(d, world, acts, d.choice(sides)) is not None:
                done += 1
        for _ in range(d.int(0, 6)):
            acts.append(["step", d.choice(("EL", "ER", "S"))])
        acts.append(["settle"])
        world.settle()
    return {"cfg": cfg, "enum": True, "batch": True, "acts": acts, "meta": {"excluded": dict(world.excluded)}}


def batch_ok(trace):
    from ..model import World
    cfg = trace["cfg"]
    stepped = False
    for a in trace["acts"]:
        if a[0] == "step":
            stepped = True
        elif a[0] == "settle":
            stepped = False
        elif a[0] == "u" and stepped:
            return False

    def init(world):
        world.crash_anywhere = True
        world.strict_reuse = True
        world.stale_strict = True
    sides = (0, 1) if "origin" not in cfg else (cfg["origin"],)
    return envelope_ok(trace, sides=sides, world_init=init)


def _with_crash(trace, kind, k):
    return dict(trace, acts=[["crash", kind, k]] + list(trace["acts"]))


def run_enum(trace):
    if "point" in trace:
        kind, k = trace["point"]
        return Run(_with_crash(trace, kind, k)).execute()
    probe = Run(trace)
    out = probe.execute()
    if out["status"] != "ok":
        return out
    ns, np_ = probe.cplan.storage_writes, probe.cplan.provider_writes
    points = [("storage", k) for k in range(ns)] + [("provider", k) for k in range(np_)]
    import os
    tier_all = os.environ.get("VERIF_TIER") == "thorough"
    if not tier_all:
        # quick: every provider-write crash point (few, and each one is a distinct half-done transfer) up to 16,
        # plus 8 evenly spread storage-write points
        sp, pp = points[:ns], points[ns:]
        if len(sp) > 8:
            sp = [sp[int(i * len(sp) / 8.0)] for i in range(8)]
        if len(pp) > 16:
            pp = [pp[int(i * len(pp) / 16.0)] for i in range(16)]
        points = sp + pp
    fired = nontriv = 0
    for kind, k in points:
        r = Run(_with_crash(trace, kind, k))
        o = r.execute()
        fired += len(r.crashes)
        nontriv += bool(o.get("nontrivial"))
        if o["status"] == "violation":
            trace["point"] = [kind, k]
            o["detail"] = "[crash point %s #%d of Ns=%d Np=%d] %s" % (kind, k, ns, np_, o["detail"])
            return o
    return ok(nontrivial=nontriv > 0, labels=["enum:histories", "enum:batch_windows" if trace.get("batch") else "enum:guarded"],
              counters={"enum:crash_runs": len(points), "enum:crashes_fired": fired, "enum:nontrivial_crash_runs": nontriv,
                        "enum:storage_points": ns, "enum:provider_points": np_})


PARTS = {"enum": (gen_enum, run_enum)}
