"""C05  Conflict-resolution contract: both sides end up with the resolver's answer."""
from .. import shims  # noqa: F401  (must precede any cloudsync import)
import io
import itertools

from cloudsync import CloudSync

from ..core import ok, violation, invalid
from ..gen import FLAVOURS
from ..hist import HistoryRun, Stop
from ..engine import InvalidTrace, blob
from .. import oracles as O

ID = "C05"
LEVEL = "exploration"
RULE = ("Cases = (shape in create/create, edit/edit) x (contents pair incl. equal, empty, 4 KiB) x resolver behaviour "
        "(pick local/remote x keep/drop, merged bytes + drop, None, raise, str, 1-tuple, 3-tuple, (non-file, True), (), 0) x "
        "flavour x two independently drawn step schedules after both user ops are applied (+ unrelated background "
        "creations).  The resolver x shape x flavour x equal/different product is also enumerated exhaustively with the "
        "canonical schedule.  Oracle = the statement's outcome table (resolver called once iff contents differ, with "
        "handles whose bytes/side labels are the two sides' contents; winner at the path on both sides; loser in a "
        "'.conflicted' sibling iff keep; merged bytes on both sides; None/raise/garbage => remote wins, local kept) and "
        "schedule independence (identical final trees under both schedules).  Part `rounds`: 2-4 conflicts in a row on the "
        "same file (fresh bytes on both sides each round, resolver drawn per round, drawn schedule, judged after each "
        "round with the same table; a side re-writing the synced bytes is not a conflict).  Non-trivial = contents differ "
        "(the resolver must be called; rounds: in at least two rounds); distinct = distinct case.")
ASSUMPTIONS = [
    "mock providers; the resolver is installed by overriding CloudSync.resolve_conflict (documented override point)",
    "resolver answer (merged data, keep=True) is an open finding (KF-06) and not generated",
]

RESOLVERS = ("pick_L_keep", "pick_L_drop", "pick_R_keep", "pick_R_drop", "merge_drop", "none", "raise", "str",
             "tuple1", "tuple3", "nonfile_true", "falsy_tuple", "zero")
KF_RESOLVERS = ("merge_keep",)
SHAPES = ("edit_edit", "create_create")
CONTENTS = ("x1", "y2", "", "big#4096", "x1")       # pairs drawn from here; equal pairs possible


def make_cs(kind, log):
    """`kind` is a resolver name, or a one-element list holding the current one (part `rounds` swaps it between rounds)"""
    holder = kind if isinstance(kind, list) else [kind]

    class ResolverCS(CloudSync):
        def resolve_conflict(self, f1, f2):
            kind = holder[0]
            rec = []
            for f in (f1, f2):
                data = f.read()
                f.seek(0)
                rec.append((f.side, data, f.path))
            log.append(rec)
            loc = f1 if f1.side == 0 else f2
            rem = f1 if f1.side == 1 else f2
            if kind == "pick_L_keep":
                return (loc, True)
            if kind == "pick_L_drop":
                return (loc, False)
            if kind == "pick_R_keep":
                return (rem, True)
            if kind == "pick_R_drop":
                return (rem, False)
            by_side = {s_: dat for s_, dat, _ in rec}
            merged = b"merged(L=" + by_side.get(0, b"?")[:8] + b"|R=" + by_side.get(1, b"?")[:8] + b")"   # independent of argument order
            if kind == "merge_drop":
                return (io.BytesIO(merged), False)
            if kind == "merge_keep":
                return (io.BytesIO(merged), True)
            if kind == "none":
                return None
            if kind == "raise":
                raise RuntimeError("resolver failed (scripted)")
            if kind == "str":
                return "garbage"
            if kind == "tuple1":
                return (loc,)
            if kind == "tuple3":
                return (loc, True, 3)
            if kind == "nonfile_true":
                return (42, True)
            if kind == "falsy_tuple":
                return ()
            if kind == "zero":
                return 0
            raise AssertionError(kind)
    return ResolverCS


def budget(tier):
    q = tier == "quick"
    return [{"workers": 16, "examples": 120 if q else 4000},
            {"part": "rounds", "workers": 16, "examples": 80 if q else 3000}]


def _sched(d):
    return [d.choice(("EL", "ER", "S")) for _ in range(d.int(0, 12))]


def gen(d, tier):
    L, R = d.choice(FLAVOURS)
    a = d.choice(CONTENTS)
    b = d.choice(CONTENTS) if d.chance(5, 6) else a
    return {"cfg": {"L": L, "R": R, "salt": d.int(0, 7)}, "shape": d.choice(SHAPES), "contents": [a, b],
            "resolver": d.choice(RESOLVERS), "order": d.int(0, 1), "bg": d.int(0, 2),
            "sched": _sched(d), "sched2": _sched(d)}


def one_run(trace, sched):
    log = []
    cfg = trace["cfg"]
    acts = []
    if trace["shape"] == "edit_edit":
        acts += [["u", trace["order"], "create", "/f", "base0"], ["settle"]]
        op = "write"
    else:
        op = "create"
    sides = (0, 1) if trace["order"] == 0 else (1, 0)
    for s in sides:
        acts.append(["u", s, op, "/f", trace["contents"][s]])
    for i in range(trace.get("bg", 0)):
        acts.append(["u", i % 2, "create", "/bg%d" % i, "bg%d" % i])
    acts += [["step", w] for w in sched]
    acts.append(["settle"])
    r = HistoryRun({"cfg": cfg, "acts": acts}, case_kw={"cs_class": make_cs(trace["resolver"], log)})
    final = {}

    def finish():
        e = O.escaped(r.case)
        if e:
            raise Stop(violation("exception_escaped", e))
        final["L"] = r.case.snap(0)
        final["R"] = r.case.snap(1)
        return ok()
    r.finish = finish
    out = r.execute()
    return out, log, final


def judge(trace, log, final, before_conf=(), prev=None):
    """before_conf: (side, path) of '.conflicted' files that existed before this round (part `rounds`);
    prev: bytes both sides held at /f before the round -- a side that re-writes exactly those bytes has no
    unsynchronised content, so there is no conflict and the other side's edit (if any) is simply mirrored."""
    cL, cR = blob(trace["contents"][0]), blob(trace["contents"][1])
    kind = trace["resolver"]
    L, R = final["L"], final["R"]
    L = {p: v for p, v in L.items() if (0, p) not in before_conf}
    R = {p: v for p, v in R.items() if (1, p) not in before_conf}
    if prev is not None and (cL == prev or cR == prev):
        want = cR if cL == prev else cL
        if log:
            return "only one side holds unsynchronised content, yet the resolver was called %d time(s)" % len(log)
        if L.get("/f") != want or R.get("/f") != want or [p for t in (L, R) for p in t if ".conflicted" in p]:
            return "one-sided edit: expected /f=%r on both sides and no new '.conflicted'; L=%s R=%s" % (want[:12], O.fmt_tree(L), O.fmt_tree(R))
        return None

    def conflicted(content):
        return [(n, p) for n, t in (("L", L), ("R", R)) for p, v in t.items()
                if v == content and p.startswith("/f") and ".conflicted" in p]
    any_conf = [p for t in (L, R) for p in t if ".conflicted" in p]
    if cL == cR:
        if log:
            return "identical content on both sides, yet the resolver was called %d time(s)" % len(log)
        if L.get("/f") != cL or R.get("/f") != cL or any_conf:
            return "identical content: expected /f=%r on both sides and no '.conflicted'; L=%s R=%s" % (cL[:12], O.fmt_tree(L), O.fmt_tree(R))
        return None
    if len(log) != 1:
        return "contents differ: resolver called %d times (expected exactly once)" % len(log)
    seen = {side: data for side, data, _ in log[0]}
    if seen != {0: cL, 1: cR}:
        return "resolver handles carried %r, the sides hold %r" % ({k: v[:12] for k, v in seen.items()}, {0: cL[:12], 1: cR[:12]})
    if kind.startswith("pick_"):
        win, lose = (cL, cR) if kind[5] == "L" else (cR, cL)
        keep = kind.endswith("keep")
    elif kind == "merge_drop":
        win, lose, keep = b"merged(L=" + cL[:8] + b"|R=" + cR[:8] + b")", None, False
    else:
        win, lose, keep = cR, cL, True      # None / raise / garbage: remote wins, local kept
    if L.get("/f") != win or R.get("/f") != win:
        return "resolver %s: expected %r at /f on both sides; L=%s R=%s" % (kind, win[:16], O.fmt_tree(L), O.fmt_tree(R))
    if keep:
        if not conflicted(lose):
            return "resolver %s (keep): losing version %r is not kept in a '.conflicted' sibling; L=%s R=%s" % (kind, lose[:12], O.fmt_tree(L), O.fmt_tree(R))
    elif any_conf:
        return "resolver %s (keep=False): unexpected '.conflicted' artefact %s" % (kind, any_conf)
    return None


def run(trace):
    if trace["resolver"] not in RESOLVERS + KF_RESOLVERS:
        return invalid("unknown resolver")
    o1, log1, fin1 = one_run(trace, trace["sched"])
    if o1["status"] != "ok":
        return o1
    e = judge(trace, log1, fin1)
    if e:
        return violation("resolver_contract", "[schedule 1] " + e)
    o2, log2, fin2 = one_run(trace, trace.get("sched2", []))
    if o2["status"] != "ok":
        return o2
    e = judge(trace, log2, fin2)
    if e:
        return violation("resolver_contract", "[schedule 2] " + e)
    if fin1 != fin2:
        return violation("schedule_independent", "final trees differ between the two schedules: %s vs %s" % (
            {k: O.fmt_tree(v) for k, v in fin1.items()}, {k: O.fmt_tree(v) for k, v in fin2.items()}))
    differ = blob(trace["contents"][0]) != blob(trace["contents"][1])
    cfg = trace["cfg"]
    return ok(nontrivial=differ, labels=["resolver:" + trace["resolver"], "shape:" + trace["shape"],
                                         "flavour:%s/%s" % (cfg["L"], cfg["R"]), "differ" if differ else "equal"])


# ----------------------------------------------------------------------------- part: rounds
# Several conflicts in a row on the SAME file: every round both sides write fresh bytes to /f before the engine
# sees either, a resolver (drawn per round) answers, the engine goes quiet, and the round is judged with the same
# outcome table.  What a previous round left behind (temp files, sync hashes, '.conflicted' siblings) must not leak
# into the next one: the handles must carry THIS round's bytes.
def gen_rounds(d, tier):
    L, R = d.choice(FLAVOURS)
    rounds = []
    for i in range(d.int(2, 3 if tier == "quick" else 4)):
        a = d.choice(("x%d" % i, "", "big%d#4096" % i, "x%d" % i))
        b = d.choice(("y%d" % i, "", "big%d#4096" % i, "y%d" % i)) if d.chance(5, 6) else a
        rounds.append({"contents": [a, b], "resolver": d.choice(RESOLVERS), "order": d.int(0, 1), "sched": _sched(d)})
    return {"cfg": {"L": L, "R": R, "salt": d.int(0, 7)}, "shape": d.choice(SHAPES), "rounds": rounds, "bg": d.int(0, 1)}


class RoundsRun(HistoryRun):
    def __init__(self, trace):
        self.holder = [trace["rounds"][0]["resolver"]]
        self.conflicts = 0
        self.log = []
        self.marks = []
        acts = []
        if trace["shape"] == "edit_edit":
            acts += [["u", 0, "create", "/f", "base0"], ["settle"]]
        for i, rd in enumerate(trace["rounds"]):
            op = "create" if (i == 0 and trace["shape"] == "create_create") else "write"
            acts.append(["round", i])
            for s in ((0, 1) if rd["order"] == 0 else (1, 0)):
                acts.append(["u", s, op, "/f", rd["contents"][s]])
            if i == 0:
                for j in range(trace.get("bg", 0)):
                    acts.append(["u", j % 2, "create", "/bg%d" % j, "bg%d" % j])
            acts += [["step", w] for w in rd["sched"]]
            acts += [["settle"], ["judge", i]]
        self.rtrace = trace
        super().__init__({"cfg": trace["cfg"], "acts": acts}, case_kw={"cs_class": make_cs(self.holder, self.log)})

    def special(self, act):
        tr = self.rtrace
        if act[0] == "round":
            self.holder[0] = tr["rounds"][act[1]]["resolver"]
            self.log_at = len(self.log)
            self.conf_before = {(s, p) for s in (0, 1) for p in self.case.snap(s) if ".conflicted" in p}
            f0, f1 = self.case.snap(0).get("/f"), self.case.snap(1).get("/f")
            self.prev = f0 if f0 == f1 else None
            return
        if act[0] == "judge":
            rd = tr["rounds"][act[1]]
            e = O.escaped(self.case)
            if e:
                raise Stop(violation("exception_escaped", e))
            fin = {"L": self.case.snap(0), "R": self.case.snap(1)}
            err = judge({"contents": rd["contents"], "resolver": rd["resolver"]}, self.log[self.log_at:], fin, self.conf_before, self.prev)
            if err:
                raise Stop(violation("resolver_contract", "[round %d] %s" % (act[1] + 1, err)))
            self.conflicts += len(self.log) > self.log_at
            return
        raise InvalidTrace("unknown action %r" % (act,))


def run_rounds(trace):
    for rd in trace["rounds"]:
        if rd["resolver"] not in RESOLVERS + KF_RESOLVERS:
            return invalid("unknown resolver")
    r = RoundsRun(trace)
    out = r.execute()
    if out["status"] != "ok":
        return out
    ndiff = r.conflicts
    cfg = trace["cfg"]
    return ok(nontrivial=ndiff >= 2, labels=["rounds:%d" % len(trace["rounds"]), "flavour:%s/%s" % (cfg["L"], cfg["R"])] +
              sorted({"resolver:" + rd["resolver"] for rd in trace["rounds"]}))


PARTS = {"rounds": (gen_rounds, run_rounds)}


def extra_parts(tier, seed):
    out = {"part": "table", "evaluations": 0, "digests": 0, "samples": [], "labels": {}, "excluded": {},
           "violations": [], "invalid": 0, "first_invalid": None, "error": None, "exhaustive": True}
    for (L, R), shape, res, (a, b), order in itertools.product(FLAVOURS, SHAPES, RESOLVERS, (("x1", "y2"), ("x1", "x1"), ("", "y2")), (0, 1)):
        tr = {"cfg": {"L": L, "R": R, "salt": 0}, "shape": shape, "contents": [a, b], "resolver": res, "order": order,
              "bg": 0, "sched": [], "sched2": ["S", "EL", "ER", "S"]}
        o = run(tr)
        out["evaluations"] += 1
        out["digests"] += bool(o.get("nontrivial"))
        out["labels"]["table"] = out["labels"].get("table", 0) + 1
        if len(out["samples"]) < 1 and res == "pick_L_keep":
            out["samples"].append(tr)
        if o["status"] == "violation":
            out["violations"].append((tr, o))
    return [out]
