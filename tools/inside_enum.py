import sys, itertools, json, collections
sys.path.insert(0,'/verif')
from vf import shims
from vf.props import c04
from vf.gen import FLAVOURS
moves=(("rename","/x/s/f","/x/f"),("rename","/x/s/g","/x/g"),("rename","/x/k","/x/s/k"))
scheds=([],["EL"],["ER"],["EL","S"],["ER","S"],["S","EL","S","ER","S"],["ER","S","S","EL"],["EL","ER","S"])
res=collections.Counter(); bad=collections.Counter()
for (L,R),a,mv,order,mid,post in itertools.product(FLAVOURS,(0,1),range(3),(0,1),((),("EL",),("ER",)),range(len(scheds))):
    b=1-a
    base=[["u",a,"mkdir","/x"],["u",a,"mkdir","/x/s"],["u",a,"create","/x/s/f","f0"],["u",a,"create","/x/k","k0"],["u",a,"create","/o","o0"],["u",a,"mkdir","/x/s/g"],["u",a,"create","/x/s/g/h","h0"],["settle"]]
    ops=[["u",a]+list(moves[mv]),["u",b,"rename","/x","/y"]]
    if order: ops.reverse()
    acts=base+[ops[0]]+[["step",w] for w in mid]+[ops[1]]+[["step",w,0.02] for w in scheds[post]]+[["settle"]]
    o=c04.run_inside({"cfg":{"L":L,"R":R,"salt":0},"acts":acts})
    key=(L,R,"mover=%s"%("LR"[a]),mv)
    res[key]+=1
    if o["status"]!="ok": bad[key]+=1
for k in sorted(res): print(k, "%d/%d bad"%(bad[k],res[k]))
