"""C02  No silent data loss; conflicts keep both versions; delete never beats a newer edit; corrupt content is not propagated."""
from .. import shims  # noqa: F401  (must precede any cloudsync import)
import cloudsync.exceptions as ex

from ..core import ok, violation
from ..gen import draw_cfg, gen_history, envelope_ok, emit_base
from ..hist import HistoryRun, Stop
from ..engine import InvalidTrace, blob
from .. import oracles as O
from . import c01

ID = "C02"
LEVEL = "exploration"
RULE = ("C01's generator with the conflict-gadget rate raised (default resolver) and, in ~20% of cases, a 'corrupt' "
        "action (a user overwrites a synced file on one side and that side's download of it raises CloudCorruptError). "
        "Oracles at every quiet point: (a) every content version a user wrote and no user deleted/overwrote is the "
        "content of some file on some side; (b) edit/edit and create/create(different bytes): one version at the path "
        "on both sides, the other in a '.conflicted' sibling; (c) edit vs delete: the edited version is at the path on "
        "both sides; (d) corrupt: the other side keeps its good bytes and the engine never mutates that copy.  "
        "Non-trivial = >=1 conflict gadget (both ops applied with no sync step in between) or >=1 corrupt action that "
        "the engine tried to download; distinct = distinct trace digest.")
ASSUMPTIONS = c01.ASSUMPTIONS + [
    "a version overwritten by the user that the provider then reports unreadable is exempt from no-loss (statement: corrupt content may be replaced by the good copy)",
]

SHAPES = ("create_create_same", "create_create_diff", "edit_edit", "edit_delete", "delete_delete", "rename_edit",
          "rename_rename", "file_vs_folder", "mkdir_mkdir", "rmdir_create_inside", "rmtree_create_inside", "rename_delete",
          "dirmove_rmtree")


def budget(tier):
    return {"workers": 16, "examples": 220 if tier == "quick" else 6000}


def gen(d, tier):
    cfg = draw_cfg(d)
    n_ops = (3, 8) if tier == "quick" else (3, 16)
    shapes = tuple(s for s in c01.shapes_for(cfg) if s in SHAPES)
    acts, world = gen_history(d, cfg, sides=(0, 1), n_ops=n_ops, w_op=4, w_gadget=4, shapes=shapes, with_base=True)
    if d.chance(1, 5):
        # corrupt action on a settled, untouched file, placed right after the first settle
        files = [f for f in world.side[0].files() if f not in world.retired and world.side[1].is_file(f)]
        first = next((i for i, a in enumerate(acts) if a[0] == "settle"), None)
        base_files = [a[3] for a in acts[:first] if a[0] == "u" and a[2] == "create"] if first is not None else []
        touched = set()
        for a in acts[first + 1:] if first is not None else []:
            if a[0] == "u":
                touched.update(x for x in a[3:] if isinstance(x, str))
            elif a[0] == "gadget":
                for o in a[1]["ops"]:
                    touched.update(x for x in o[2:] if isinstance(x, str))
        cand = [f for f in base_files if not any(t == f or t.startswith(f + "/") or f.startswith(t + "/") for t in touched)]
        if cand:
            f = d.choice(cand)
            acts.insert(first + 1, ["corrupt", d.int(0, 1), f, world.new_content()])
    return {"cfg": cfg, "acts": acts, "meta": {"excluded": dict(world.excluded)}}


def in_domain(trace):
    acts = [a for a in trace["acts"] if a[0] != "corrupt"]
    return envelope_ok(dict(trace, acts=acts))


class Run(HistoryRun):
    def __init__(self, trace):
        super().__init__(trace)
        self.corrupt = []       # dict(side, path, good, bad, other_calls_at)
        if self.case is not None:
            self.case.fault_plan = self._plan
        self.corrupt_hits = 0

    def _plan(self, case, prov, rec, phase):
        if phase == "before" and rec["name"] == "download":
            for c in self.corrupt:
                if c["side"] == rec["side"] and rec["path"] == case.abspath(c["side"], c["path"]):
                    self.corrupt_hits += 1
                    return ex.CloudCorruptError("unreadable (injected)")
        return None

    def special(self, act):
        if act[0] != "corrupt":
            raise InvalidTrace("unknown action %r" % (act,))
        _, side, path, content = act
        other = 1 - side
        good = self.case.snap(other).get(path)
        if good is None or self.case.snap(side).get(path) != good:
            raise InvalidTrace("corrupt: %s is not a synced file" % path)
        self.case.user(side, "write", path, content)
        self.case.released.add(blob(content))        # unreadable version: exempt from no-loss
        self.corrupt.append({"side": side, "path": path, "good": good, "bad": blob(content), "calls_at": len(self.case.calls)})
        self.exp = None

    def after_step(self, who):
        e = O.escaped(self.case)
        if e:
            raise Stop(violation("exception_escaped", e))
        for c in self.corrupt:
            other = 1 - c["side"]
            if self.case.snap(other).get(c["path"]) != c["good"]:
                raise Stop(violation("corrupt_not_propagated", "after step %s the good copy of %s on side %d is %r (was %r)" % (
                    who, c["path"], other, self.case.snap(other).get(c["path"]), c["good"])))
            ab = self.case.abspath(other, c["path"])
            bad = [x for x in self.case.mutations(c["calls_at"], other) if x["path"] == ab or x["dst"] == ab]
            if bad:
                raise Stop(violation("corrupt_not_propagated", "engine mutated the good copy: %s" % [(x["name"], x["path"], x["dst"]) for x in bad]))

    def at_quiet(self, rounds, final):
        e = O.no_loss(self.case)
        if e:
            raise Stop(violation("no_loss", e))
        L, R = self.case.snap(0), self.case.snap(1)
        for g in self.gadgets:
            shape, ops = g["shape"], g["ops"]
            if shape in ("edit_edit", "create_create_diff"):
                p = ops[0][2]
                v = [blob(ops[0][3]), blob(ops[1][3])]
                if L.get(p) != R.get(p) or L.get(p) not in v:
                    raise Stop(violation("conflict_keeps_both", "%s: winner not at %s on both sides: L=%r R=%r" % (shape, p, L.get(p), R.get(p))))
                loser = v[1] if L.get(p) == v[0] else v[0]
                folder = p.rsplit("/", 1)[0]
                sib = [q for t in (L, R) for q, c in t.items() if c == loser and q.rsplit("/", 1)[0] == folder and ".conflicted" in q.rsplit("/", 1)[1]]
                if not sib:
                    raise Stop(violation("conflict_keeps_both", "%s at %s: losing version %r is not kept under a '.conflicted' sibling" % (shape, p, loser)))
            elif shape == "edit_delete":
                w = [o for o in ops if o[1] == "write"][0]
                p, v = w[2], blob(w[3])
                if L.get(p) != v or R.get(p) != v:
                    raise Stop(violation("delete_never_beats_edit", "edited version %r of %s not on both sides: L=%r R=%r" % (v, p, L.get(p), R.get(p))))

    def finish(self):
        cfg = self.trace["cfg"]
        labs = ["flavour:%s/%s" % (cfg["L"], cfg["R"])] + ["gadget:" + g["shape"] for g in self.gadgets]
        if self.corrupt:
            labs.append("corrupt")
        if self.corrupt_hits:
            labs.append("corrupt_download_attempted")
        return ok(nontrivial=bool(self.gadgets) or self.corrupt_hits > 0, labels=labs)


def run(trace):
    return Run(trace).execute()
