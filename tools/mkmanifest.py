"""Regenerates MANIFEST.json from the table below (kept in one place so it is always valid)."""
import json, os, sys
VERIF = os.path.dirname(os.path.dirname(os.path.abspath(__file__)))
sys.path.insert(0, VERIF)
BASELINE = "cd /repo && /venv/bin/python -m pytest -ra -q -p no:cacheprovider --timeout=900 --continue-on-collection-errors"

CHECKS = {
 "C03": dict(engine="E-engine-harness", category="exploration", design_ref="2/C03",
   technique="property-based testing: Hypothesis-generated one-sided histories against a file-tree reference model (mirror oracle), per-step origin-snapshot invariant, no-echo call-log invariant; trace-level ddmin shrinking",
   text="Generated one-sided operation histories (all four id/path provider flavours, arbitrary interleaving of single production-loop iterations) are executed against the real engine and compared with a pure reference tree at every quiet point; the origin side is snapshotted around every engine step and the engine's provider call log must stay silent after quiet. Part 'starved' generates schedules in which the origin's event loop runs once and then only the sync loop (with time passing) and the other side's intake run while the user keeps working on the same objects. No counter-example in the explored domain is the claim; absence is not established.",
   note="Trusted: mock providers as stand-ins for accounts, harness shims (virtual clock, deterministic ids/hash order), reference tree model. Domain narrowed by the hazards listed in evidence.assumptions (open known findings)."),
}
E_NOTE = "Schedules: single production-loop iterations in arbitrary order incl. starvation bursts, with virtual time passing between them; flavours: four id/path pairs, provider-side event filtering, roots by id, (C01/C03/C04) case-insensitive id/id with variant spellings. Trusted: mock providers as stand-ins for accounts, harness shims (virtual clock, deterministic ids/hash order), reference tree model. Domain narrowed by the hazards listed in evidence.assumptions (each backed by an open known finding with a replayed witness)."
CHECKS.update({
 "C01": dict(engine="E-engine-harness", category="exploration", design_ref="2/C01",
   technique="property-based testing: Hypothesis-generated two-sided histories (hazard-free background ops + pure conflict-gadget catalogue) executed step-by-step against the real engine; oracle = convergence predicate modulo '.conflicted' + step-bounded quiescence; trace-level ddmin",
   text="Generated two-sided histories over four id/path provider flavours with arbitrary interleavings of single production-loop iterations; at every quiet point both roots must be equal modulo '.conflicted' names and quiet must be reached within 400 rounds. Part 'deldel': both users delete one file, then a folder above it is renamed before any sync step, with late delivery of the other side's events (exact expected tree). Sampling, not absence; the statement is known to be false outside the hazard envelope (open known findings are replayed and reported).",
   note=E_NOTE),
 "C02": dict(engine="E-engine-harness", category="exploration", design_ref="2/C02",
   technique="property-based testing: generated conflict gadgets and injected CloudCorruptError; oracle = version-survival invariant over the whole history (every unreleased user-written content present somewhere), per-gadget outcome predicates, call-log invariant for the good copy of a corrupt file",
   text="Every content version users wrote is tracked; 'released' is decided from what the user actually deleted/overwrote at the provider. At every quiet point each unreleased version must be the content of some file; edit/edit and create/create conflicts must keep winner at the path and loser in a '.conflicted' sibling; an edit must survive a concurrent delete; the good copy of a corrupt file must never be mutated by the engine.",
   note=E_NOTE),
 "C04": dict(engine="E-engine-harness", category="exploration", design_ref="2/C04",
   technique="property-based testing: Hypothesis-generated two-sided histories with per-window disjointness enforced by construction; oracle = reference merged tree (base + opsL + opsR) compared at every quiet point",
   text="Both sides change disjoint objects concurrently; because the generator enforces disjointness per window the expected merged tree is well defined and both roots must equal it exactly (no resurrection, no duplication, no '.conflicted'). Part 'inside': a child is moved between directories inside folder X while the other side renames X (commuting changes to different objects, exact expected tree; restricted to the flavour/direction combinations that hold on the unchanged tree, open finding KF-50).",
   note=E_NOTE),
 "C13": dict(engine="path-laws", category="exploration", design_ref="2/C13",
   technique="bounded-exhaustive enumeration of all strings over a 9-character alphabet (5 path conventions) plus Hypothesis long unicode paths, against a table of algebraic laws (idempotence, round-trip, metamorphic prefix/replace relations, equivalence-relation axioms, translate round-trip)",
   text="Every law of the statement is evaluated on every string up to the length bound (exhaustive: true for that finite domain, ~12M evaluations in the quick tier) and on generated long paths; helpers raising on any string is a violation.",
   note="Trusted: the law table itself (transcribed from the statement); MockProvider subclasses only supply sep/alt_sep/case/win_paths to the Provider helpers under test."),
})
CHECKS.update({
 "C09": dict(engine="storage-model", category="exploration", design_ref="2/C09",
   technique="model-based property testing: Hypothesis-generated storage call sequences (incl. close/reopen and cross-tag id probes) against a dict reference model for four backends; sampled multi-thread workloads with a merged-model oracle",
   text="Each backend is driven by generated call sequences and compared with a dictionary after every call (return values, error/no-error, read_all exactness per tag and globally, reopen durability). The concurrency clause is sampled with 8 real threads on thread-private rows.",
   note="Trusted: the dict model. Thread schedules are sampled, not enumerated. MockStorage defects (KF-17) are excluded by construction and replayed as known findings."),
 "C19": dict(engine="hcache", category="exploration", design_ref="2/C19",
   technique="model-based property testing: Hypothesis-generated cache operation sequences against a dictionary model with the documented eviction rules, plus a structural invariant evaluated by walking the real tree after every operation",
   text="After every generated operation the real cache is walked from its root (child keys, parent links, acyclicity, unique ids, id map == reachable ids, get_path/get_oid inverse) and every getter is compared with the dictionary model over the whole (small) path/id universe, for case-sensitive and case-insensitive conventions.",
   note="Trusted: the dictionary model (evict id owner, evict path owner, id-less ancestors). The 'id owned by an ancestor of the target path' family is an open finding (KF-19) and excluded by construction."),
})
CHECKS.update({
 "C18": dict(engine="runnable", category="exploration", design_ref="2/C18",
   technique="property-based testing against a reference backoff law (scripted work functions, recorded sleep requests); generated start/stop/wait schedules with harness-owned placement of stop(); generated notification lists with failing handlers compared with the delivery log",
   text="Backoff arithmetic is decided single-threaded by replacing interruptable_sleep with a recorder and comparing every requested wait with min(max, min*mult^(k-1)); the stop/start protocol runs real threads but the harness blocks do() so that it owns where stop() lands; notification delivery is compared with the raised list, in order, once each; part 'restart' calls start() again while the previous worker is still inside do() after a non-waiting stop (never two workers, cleanup at most once).",
   note="Trusted: the reference law as transcribed from the statement. Real-thread parts sample OS scheduling apart from the harness-owned stop placement; a wall-clock wait that runs out is reported as inconclusive, never as a violation."),
})
CHECKS.update({
 "C10": dict(engine="E-engine-harness", category="fault_enumeration", design_ref="2/C10",
   technique="fault injection driven by property-based generation: Hypothesis-generated histories with generated fault arms (kind x before/after-effect x placement) in front of the provider API; bounded enumeration of every single-fault placement of generated fault-free runs; oracles: escaped-exception invariant, per-step notification attribution, convergence + version-survival after faults stop",
   text="Faults are raised instead of / after the k-th engine-originated provider call; the production loop body must swallow them, raise the matching notification in the same step, and converge without loss once faults stop. The 'single' part enumerates, for each generated fault-free history, every engine call index x 7 fault kinds/phases once (all placements of a single fault; before-effect kinds only where the window renames something); 'stuck' covers permanently failing files (locked / invalid name).",
   note=E_NOTE + " Fault-placement families fenced off as open findings (KF-20, KF-21, KF-27/27c, KF-11d) are replayed every run."),
})
CHECKS.update({
 "C06": dict(engine="E-engine-harness", category="exploration", design_ref="2/C06",
   technique="property-based testing: Hypothesis-generated histories with stop/start cycles at arbitrary step boundaries, offline user changes and four storage-damage modes; oracle = reference merged tree at every quiet point plus a call-log invariant (no transfer after a restart at a quiet point)",
   text="The engine is stopped and a new one is built over the same storage and accounts (provider cursors reset to what a new process sees); modes remove or corrupt the stored cursor or the walk marker. In a third of the cycles the stop request reaches an event loop in the middle of a batch. Both roots must equal the expected tree afterwards and a restart at a quiet point must not transfer anything.",
   note=E_NOTE),
 "C07": dict(engine="E-engine-harness", category="fault_enumeration", design_ref="2/C07",
   technique="crash-point injection driven by property-based generation: a crash is raised immediately before the k-th storage write or after the k-th engine provider mutation, the engine object is discarded and rebuilt over the surviving storage/provider contents; 'enum' re-runs each generated history once per crash point (all points in the thorough tier); oracle = convergence + version survival + no conflict artefacts",
   text="Every storage write and every engine-issued provider mutation of a generated run, in every window of the history, is a crash point; quick takes all provider-write points (up to 16) plus 8 evenly spread storage-write points per history, thorough enumerates all of them; half of the enumerated histories are 'batch windows' (all user ops of a window before its engine steps) without the re-touch fence. After the crash the history continues and must still converge without loss and (one-sided) without '.conflicted' names.",
   note=E_NOTE + " Atomic row writes are assumed (DictStorage). KF-29/KF-27b (object touched again between crash and re-sync), KF-30 and KF-42 (multi-row commits are not atomic) are fenced off and replayed."),
})
CHECKS.update({
 "C05": dict(engine="E-engine-harness", category="exploration", design_ref="2/C05",
   technique="property-based testing against an outcome table: generated (shape, contents, resolver behaviour, flavour, two step schedules) cases with an instrumented resolver installed through the documented override; metamorphic relation between the two schedules; exhaustive enumeration of the resolver x shape x flavour x content-class product",
   text="The resolver logs what it is handed and answers according to the drawn behaviour; the final trees are judged by the statement's table (winner at the path on both sides, loser kept iff keep, merged data, remote-wins fallback for None/raise/garbage, silent merge for equal contents) and must be identical for two independently drawn schedules. Part 'rounds' repeats the conflict 2-4 times on the same file (fresh bytes each round, resolver drawn per round) and judges every round with the same table.",
   note=E_NOTE + " Resolver answer (merged, keep=True) is an open finding (KF-06), replayed every run and not generated."),
 "C14": dict(engine="E-engine-harness", category="exploration", design_ref="2/C14",
   technique="metamorphic property-based testing: every generated history is executed twice (clean vs. script-driven mangled event delivery: duplicates, late copies, singleton batches, held-back and reordered events on id-style sides, injected id-less/never-existed events, walk replays); oracle = equal final trees (== expected), transfer multiset inclusion for immediate duplicates, no mutation when redundant information is fed to a quiet engine",
   text="Delivery details are owned by a wrapper around provider.events() with its own cursor; the outcome of the mangled run must equal the clean run and the reference tree. Where timing is identical (immediate duplicates) the mangled run may not perform any additional successful create/upload/delete; walks, bogus events and (id-style sides) a tree listing taken earlier and delivered late, fed to a quiet engine, must cause no provider mutation.",
   note=E_NOTE + " Walk replays overtaking pending renames on a path-style side (KF-32), folder events overtaken by their sub-folder's (KF-34) and a stale listing delivered after a delete (KF-48) are open findings, fenced off and replayed."),
})
CHECKS.update({
 "C08": dict(engine="E-engine-harness", category="exploration", design_ref="2/C08",
   technique="invariant checking over generated engine histories (after every single step: decoded storage rows == live entries field by field; a state reloaded from a copy of the storage must answer all lookups and the pending set identically) plus round-trip property testing of the entry codec with generated hash/id value shapes and legacy row formats",
   text="The persisted==in-memory clause is evaluated after every event-intake and sync step of generated histories (with conflict gadgets, so splits, merges and discards occur); the codec clause serialises generated entries, stores the row and loads it through the real SyncState loader, including rows in the formats older releases wrote.",
   note=E_NOTE),
})
CHECKS.update({
 "C11": dict(engine="state-level", category="exploration", design_ref="2/C11",
   technique="stateful property-based testing of SyncState: generated event/split/merge/ignore/assignment/commit sequences with an index-integrity invariant evaluated after every operation; the same invariant after every step of generated engine histories",
   text="The two lookup structures and the pending set are recomputed from the entries after every operation and compared slot by slot (every id slot, every (path,id) slot, no empty bucket, pending == change flag with an id, nothing forgotten). Sequences deliberately reuse ids and path slots, include splits and merges, and let the provider fail (temporary error) on a lookup the state makes while it applies a rename event: the index must be intact after the aborted update too.",
   note="Trusted: the integrity predicate (transcribed from the statement). Operation preconditions mirror the code's own asserts and call sites. KF-16 (unbounded recursion) is fenced off and replayed; KF-35/KF-41 were repaired and their witnesses are regression traces."),
})
CHECKS.update({
 "C12": dict(engine="E-engine-harness", category="exploration", design_ref="2/C12",
   technique="property-based testing with objects outside the roots (prefix siblings, account-root files, boundary-crossing moves, declining translate): snapshot invariant over everything outside the roots around every engine step, call-log invariant on the resolved target path of every engine mutation, reference tree for the inside",
   text="Users create and move objects across the root boundary; after every single engine step everything outside both roots must be byte-identical and every engine-issued mutation must address (as resolved before the call) a path inside the root; the inside must equal the expected tree with move-out as deletion and move-in as creation; part 'xmove' renames/deletes an object inside the root on one side while the other side moves it out (judged: nothing outside a root is ever touched, every engine mutation addresses a path inside its root); declined paths must stay exactly as each side's users left them.",
   note=E_NOTE + " KF-23 (upload onto a moved-out file), KF-36 (children of a moved-in folder), KF-11b/c (tombstones of moved-out objects) and KF-45 (children of a moved-out folder deleted outside the root) are open findings, fenced off and replayed."),
})
CHECKS.update({
 "C17": dict(engine="E-engine-harness", category="exploration", design_ref="2/C17",
   technique="differential property-based testing under a virtual clock: the engine's entry selection is compared, inside the wrapped call with the clock frozen, with a reference choice computed from the statement's law; an end-to-end call-log invariant relates every engine mutation to the last event notification of that object; a bounded-step no-starvation scenario",
   text="Ageing, priorities and clock advances are generated; every single sync step's pick must be None iff nothing is eligible and otherwise minimal in (priority, latest change) among the eligible entries; every provider mutation must come at least the ageing interval after the object's last event notification unless its priority is negative; a file ranked negative must be through before the sync loop ever goes idle (part 'urgent'); after an event-intake step every entry whose path changed has the rank prioritize() gives to its new path (prioritize by leaf name or by top-level folder); with one file failing for ever, k healthy files must be propagated within 20k+50 sync steps.",
   note=E_NOTE + " KF-37/38 (early propagation via set_aged / via the other side's flag) and KF-39 (livelock with prioritize and rmtree) are open findings, fenced off and replayed."),
})
CHECKS.update({
 "C20": dict(engine="E-engine-harness", category="exploration", design_ref="2/C20",
   technique="model-based property testing of SmartCloudSync: generated remote/local user ops, application requests/un-requests (by path and by id) and folder listings interleaved with single engine iterations; safety invariant after every step (what may be present locally, which remote objects the engine may download, no remote deletion) and reference trees + listing model at every quiet point",
   text="A small model tracks what users made of the remote tree, which files were created locally, requested or match the auto-sync predicate; after every engine step and application call the local tree may only contain such files, the engine's call log may only download such files and may never delete remotely; at quiet both trees and every folder listing (name -> is_synced) must equal the model.",
   note=E_NOTE + " Remote side id-style or path-style; renames and local deletes are outside the generated domain."),
})
CHECKS.update({
 "C16": dict(engine="provider-model", category="exploration", design_ref="2/C16",
   technique="model-based property testing of the provider API: Hypothesis-generated call sequences (incl. stale ids, missing parents, case variants, five file-size classes) against a reference file tree for four MockProvider flavours and the FileSystemProvider on a scratch directory; per-call result/exception-class oracle, cross-agreement of all read calls, id-stability and hash laws, event-stream completeness; separate identity/single-use scenarios",
   text="Every call's result or exception class is compared with the reference tree; after every call all read calls must agree with the tree and with each other, ids must be stable (id-style) or equal the normalised path (path-style), info.hash must equal hash_data of the same bytes with equal hash iff equal bytes, and the event stream must report every successful mutation.",
   note="Trusted: the reference tree and the documented error classes. Filesystem events are asynchronous: 5 s polling, up to two whole-case re-runs with longer polls and paced calls, and the object's final existence is accepted in the event. Sequences include disconnect/reconnect cycles and renames that replace an empty folder. KF-22 (mock path-style + case-insensitive) is fenced off (lower-case names only) and replayed."),
})
CHECKS.update({
 "C15": dict(engine="E-engine-harness", category="exploration", design_ref="2/C15",
   technique="runtime monitor driven by property-based generation: every write to the sync state (SyncState.updated) must come from a thread owning the state lock, bucketed by the public entry point; driven by generated sequential histories incl. application-thread API calls, and by sampled real-thread executions (cs.start) whose result is compared with the reference tree and the index-integrity predicate",
   text="The lock clause is decided deterministically: any state write outside the lock is reported with its call site, whichever thread makes it, over generated histories that exercise the application-facing APIs (requests, un-requests, listings, walks). The 'equivalent to a sequential interleaving' clause is sampled with real threads and varying switch intervals: part 'queue' calls CloudSync.walk() at a harness-owned instant in the middle of an event manager's queue drain (every queued event must be applied); after quiet + stop the trees must equal the expected tree and the indexes must be intact.",
   note=E_NOTE + " Real OS interleavings are sampled, not enumerated; a wall-clock wait that runs out is inconclusive, never a violation."),
})
NOT_YET = {}

def main():
    props = [json.loads(l) for l in open(os.path.join(VERIF, "properties.jsonl"))]
    checks, na = [], []
    for p in props:
        pid = p["id"]
        if pid in CHECKS:
            c = CHECKS[pid]
            checks.append({
                "property_id": pid,
                "quick_cmd": "./check %s quick" % pid,
                "thorough_cmd": "./check %s thorough" % pid,
                "evidence_file": "evidence/%s.json" % pid,
                "replay_cmd_template": "./check %s --replay {path}" % pid,
                "engine": c["engine"],
                "level_claimed": {"category": c["category"], "text": c["text"], "design_ref": "DESIGN.md section " + c["design_ref"]},
                "level_note": c["note"],
                "technique": c["technique"],
            })
        else:
            na.append({"property_id": pid, "reason": NOT_YET.get(pid, "check not built yet in this session (planned: see DESIGN.md section 2); not claimed until its check is registered")})
    engines = {}
    for c in checks:
        engines.setdefault(c["engine"], []).append(c["property_id"])
    ENG = {
      "E-engine-harness": ("vf/engine.py", "two MockProviders + real CloudSync stepped one production-loop iteration at a time under a virtual clock; call log, fault/crash/event-mangling wrappers; pure reference tree model with hazard predicates"),
      "state-level": ("vf/props", "SyncState/SyncEntry driven directly by generated events and manager-style assignments"),
      "storage-model": ("vf/props/c09.py", "Storage backends vs dict model, stateful Hypothesis machine"),
      "path-laws": ("vf/props/c13.py", "bounded-exhaustive + Hypothesis path algebra laws"),
      "provider-model": ("vf/props/c16.py", "provider API vs reference file tree, stateful"),
      "runnable": ("vf/props/c18.py", "Runnable/NotificationManager scripted work functions, harness-owned schedule"),
      "hcache": ("vf/props/c19.py", "HierarchicalCache vs dictionary model + structural invariant, stateful"),
    }
    man = {
      "version": 1,
      "setup_cmd": "./setup.sh",
      "hooks": {"guard": "CLOUDSYNC_VERIF", "enable": "no in-source hooks: all instrumentation is installed from outside by vf/shims.py and vf/engine.py (monkey-patches and subclasses); nothing to enable",
                "baseline_off_cmd": BASELINE, "source_commits": [], "add_only": True},
      "engines": [{"name": n, "path": ENG[n][0], "serves_properties": ps, "kind_free_text": ENG[n][1]} for n, ps in engines.items()],
      "checks": checks,
      "not_applicable": na,
      "notes": "Technique family: property-based testing and fuzzing (Hypothesis 6.168). Every check: ./check <ID> quick|thorough; VERIF_SEED respected; exit 2 = harness error (never a VIOLATION). Known findings: known_findings.json. fix: commits in /repo are listed there with status fixed.",
    }
    with open(os.path.join(VERIF, "MANIFEST.json"), "w") as f:
        json.dump(man, f, indent=1)
        f.write("\n")
    print("MANIFEST: %d checks, %d not_applicable" % (len(checks), len(na)))

if __name__ == "__main__":
    main()
