"""C18  Service loops: bounded geometric backoff, final stop, ordered notifications.

Part A (main, single-threaded arithmetic): a Runnable whose do() plays a generated script and whose
        interruptable_sleep records the requested wait; reference backoff law from the statement.
Part 'protocol' (real thread, harness-owned schedule): do() blocks on harness events so the harness decides
        whether stop() lands while do() runs, while the loop sleeps, or right after start().
Part 'notify': NotificationManager delivers in order, once each, also after handler failures
        (in-thread run and a real-thread single lifetime).
"""
import time
import threading

from .. import shims  # noqa: F401
from ..core import ok, violation, invalid
from cloudsync.runnable import Runnable
from cloudsync.notification import NotificationManager, Notification, NotificationType, SourceEnum

ID = "C18"
LEVEL = "exploration"
RULE = ("A: Hypothesis-generated scripts (ok / no-op success / backoff() / raise Exception / raise BaseException) with "
        "drawn (min,max,mult,sleep); oracle = reference law wait_k = min(max, min*mult^(k-1)) after the k-th consecutive "
        "failure, sleep parameter after a success that did something, do() called once per script entry.  "
        "protocol: generated start/stop(forever,wait)/wait cycles with the stop placed during do(), during the sleep or "
        "immediately after start(); oracle = no do() call after stop returned, done() exactly once iff final stop of a "
        "started service, start() after a final stop raises RuntimeError.  notify: generated notification lists with "
        "handler-raises flags; oracle = handler log equals the list in order, once each.  Non-trivial: A - >=2 "
        "consecutive failures followed by a success; protocol - a stop issued while do() was executing; notify - a "
        "handler failure followed by a later notification.")
ASSUMPTIONS = [
    "the wait after a no-op success (nothing_happened) is not asserted: the statement is silent about it; streaks containing one are skipped until the next real success",
    "final stops are only issued to a running service (the statement speaks of 'a started service')",
    "part 'protocol' uses real threads: the placement of stop() is owned by the harness, everything else by the OS scheduler",
]


class _Base(BaseException):
    pass


class Scripted(Runnable):
    def __init__(self, script, mn, mx, mult):
        self.script = list(script)
        self.i = 0
        self.sleeps = []
        self.min_backoff = mn
        self.max_backoff = mx
        self.mult_backoff = mult

    def do(self):
        k = self.script[self.i]
        self.i += 1
        if k == "ok":
            return
        if k == "noop":
            self.nothing_happened()
            return
        if k in ("noop_raise", "noop_backoff"):
            # "found nothing to do" and then the call fails after all: a failure like any other; the no-op note
            # belongs to THIS call and must not be charged to a later successful one
            self.nothing_happened()
            if k == "noop_raise":
                raise ValueError("scripted")
            self.backoff()
        if k == "backoff":
            self.backoff()
        if k == "raise":
            raise ValueError("scripted")
        if k == "base":
            raise _Base("scripted")

    def interruptable_sleep(self, secs):
        self.sleeps.append(secs)


def gen(d, tier):
    mn = d.choice((0.01, 0.5, 1.0, 3.0))
    mx = mn * d.choice((1, 2, 7, 100))
    mult = d.choice((1.0, 1.5, 2.0, 3.0))
    sleep = d.choice((0, 0.001, 0.25))
    n = d.int(2, 14 if tier == "quick" else 40)
    script = [d.weighted((("ok", 3), ("noop", 1), ("backoff", 3), ("raise", 2), ("base", 1), ("noop_raise", 1), ("noop_backoff", 1)))
              for _ in range(n)]
    return {"cfg": {"min": mn, "max": mx, "mult": mult, "sleep": sleep}, "acts": script}


def run(trace):
    c = trace["cfg"]
    script = trace["acts"]
    if not script:
        return invalid("empty script")
    r = Scripted(script, c["min"], c["max"], c["mult"])
    try:
        r.run(until=lambda: r.i >= len(script), sleep=c["sleep"])
    except BaseException as e:
        if type(e).__name__ == "CaseHang":
            raise
        return violation("keeps_running", "run() let %r escape after %d calls" % (e, r.i))
    if r.i != len(script):
        return violation("keeps_running", "do() called %d times for a script of %d entries" % (r.i, len(script)))
    if len(r.sleeps) != len(script) - 1:
        return violation("keeps_running", "%d waits between %d calls" % (len(r.sleeps), len(script)))
    k = 0
    tainted = False
    nontrivial = False
    for idx, kind in enumerate(script[:-1]):
        wait = r.sleeps[idx]
        if kind in ("backoff", "raise", "base", "noop_raise", "noop_backoff"):
            k += 1
            if not tainted:
                want = min(c["max"], c["min"] * c["mult"] ** (k - 1))
                if abs(wait - want) > 1e-9 * max(1.0, abs(want)):
                    return violation("backoff_law", "after %d consecutive failures (entry %d) waited %r, law says %r" % (k, idx, wait, want))
        elif kind == "ok":
            if k >= 2 and not tainted:
                nontrivial = True
            k = 0
            tainted = False
            if wait != c["sleep"]:
                return violation("reset_after_success", "after a successful call (entry %d) waited %r, expected the sleep parameter %r" % (idx, wait, c["sleep"]))
        else:   # noop success
            if k > 0:
                tainted = True
    return ok(nontrivial=nontrivial, labels=["A"])


# ----------------------------------------------------------------------------- protocol part
class Blocking(Runnable):
    def __init__(self):
        self.calls = 0
        self.dones = 0
        self.in_do = threading.Event()
        self.release = threading.Event()
        self.block_next = False
        self.min_backoff = 0.001
        self.max_backoff = 0.001

    slow_wake = 0.0

    def wake(self):
        # (a wake-up that takes a moment widens the window between the two flag writes in stop(): harness-owned
        # placement of the race "loop sees the stop request before it can see that the stop is final")
        super().wake()
        if self.slow_wake:
            time.sleep(self.slow_wake)

    def do(self):
        self.calls += 1
        if self.block_next:
            self.block_next = False
            self.in_do.set()
            self.release.wait(5)
            self.release.clear()

    def done(self):
        self.dones += 1


def gen_protocol(d, tier):
    acts = []
    cycles = d.int(1, 3)
    for c in range(cycles):
        final = (c == cycles - 1) or d.chance(1, 4)
        acts.append(["start", d.choice((0.0005, 0.05, 2.0))])
        acts.append(["stop", d.choice(("during_do", "during_sleep", "immediately")), final, d.bool()] + ([0.03] if d.chance(1, 3) else []))
        if final:
            acts.append(["start_again"])
            break
    return {"cfg": {}, "acts": acts}


def run_protocol(trace):
    r = Blocking()
    started = False
    finally_stopped = False
    during_do = False
    try:
        for a in trace["acts"]:
            if a[0] == "start":
                if finally_stopped:
                    return invalid("start after final stop is 'start_again'")
                r.start(sleep=a[1])
                started = True
            elif a[0] == "start_again":
                if not finally_stopped:
                    return invalid("start_again before a final stop")
                try:
                    r.start(sleep=0.001)
                    r.stop(forever=True, wait=True)
                    return violation("no_restart_after_final_stop", "start() after a final stop did not raise RuntimeError")
                except RuntimeError:
                    pass
            elif a[0] == "stop":
                _, where, final, wait_flag = a[:4]
                if not started:
                    return invalid("stop before start")
                r.slow_wake = a[4] if len(a) > 4 else 0.0
                if where == "during_do":
                    r.block_next = True
                    r.wake()
                    if not r.in_do.wait(5):
                        return ok(labels=["inconclusive"])
                    r.in_do.clear()
                    during_do = True
                    r.stop(forever=final, wait=False)      # do() is still executing: a waiting stop would deadlock the harness
                    r.release.set()
                    r.wait(timeout=5)
                elif where == "during_sleep":
                    t0 = time.time()
                    while r.calls == 0 and time.time() - t0 < 5:
                        time.sleep(0.0005)
                    r.stop(forever=final, wait=wait_flag)
                    if not wait_flag:
                        r.wait(timeout=5)
                else:
                    r.stop(forever=final, wait=wait_flag)
                    if not wait_flag:
                        r.wait(timeout=5)
                calls = r.calls
                time.sleep(0.003)
                if r.calls != calls:
                    return violation("no_call_after_stop", "do() was called again after stop() returned (%d -> %d)" % (calls, r.calls))
                want_done = 1 if final else 0
                if r.dones != want_done:
                    return violation("cleanup_exactly_once", "done() ran %d times after a %s stop of a started service" % (
                        r.dones, "final" if final else "non-final"))
                started = False
                finally_stopped = final
        calls = r.calls
        time.sleep(0.003)
        if r.calls != calls:
            return violation("no_call_after_stop", "do() was called after the last stop (%d -> %d)" % (calls, r.calls))
    except TimeoutError:
        return ok(labels=["inconclusive"])
    finally:
        try:
            r.release.set()
            r.stop(forever=True, wait=False)
        except Exception:
            pass
    return ok(nontrivial=during_do, labels=["protocol"])


# ----------------------------------------------------------------------------- restart-while-busy part
class Tracking(Blocking):
    def __init__(self):
        super().__init__()
        self.mu = threading.Lock()
        self.active = 0
        self.max_active = 0

    def do(self):
        with self.mu:
            self.active += 1
            self.max_active = max(self.max_active, self.active)
        try:
            super().do()
        finally:
            with self.mu:
                self.active -= 1


def gen_restart(d, tier):
    return {"cfg": {}, "acts": [["busy_restart", d.choice(("released_before_restart", "still_busy", "still_busy")), d.int(0, 2)]]}


def run_restart(trace):
    """start; a non-waiting, non-final stop arrives while do() is executing; the application calls start() again --
    either after the old worker was released (legitimate restart) or while it is still inside do() (start() waits
    1 s for it and must then either refuse or at least never run the work function on two threads); finally a final
    waiting stop.  Whatever start() answered: do() never runs concurrently with itself, nothing runs after the final
    stop has returned, cleanup ran exactly once."""
    _, mode, extra_starts = trace["acts"][0]
    r = Tracking()
    accepted = refused = 0
    try:
        r.start(sleep=0.0005)
        r.block_next = True
        r.wake()
        if not r.in_do.wait(5):
            return ok(labels=["inconclusive"])
        r.in_do.clear()
        r.stop(forever=False, wait=False)
        if mode == "released_before_restart":
            r.release.set()
            r.wait(timeout=5)
        for _ in range(1 + extra_starts):
            try:
                r.start(sleep=0.0005)
                accepted += 1
            except RuntimeError:
                refused += 1
        r.release.set()
        time.sleep(0.02)
        r.stop(forever=True, wait=True)
        t0 = time.time()
        while r.active and time.time() - t0 < 5:
            time.sleep(0.001)
        time.sleep(0.02)
        calls = r.calls
        time.sleep(0.01)
        if r.max_active > 1:
            return violation("one_worker", "do() ran on %d threads at once (start() while the previous worker was still inside do(): accepted %d, refused %d)" % (r.max_active, accepted, refused))
        if r.calls != calls:
            return violation("no_call_after_stop", "do() was called after the final stop returned (%d -> %d)" % (calls, r.calls))
        # the final stop hit a running service only if a restart was accepted; a refused restart leaves a service that
        # already stopped non-finally, for which no cleanup is due
        want = (1,) if (mode == "released_before_restart" and accepted) else (0, 1)
        if r.dones not in want:
            return violation("cleanup_exactly_once", "done() ran %d times (restart %s: accepted %d, refused %d)" % (r.dones, mode, accepted, refused))
    except TimeoutError:
        return ok(labels=["inconclusive"])
    finally:
        try:
            r.release.set()
            r.stop(forever=True, wait=False)
        except Exception:
            pass
    return ok(nontrivial=True, labels=["restart:" + mode, "restart_accepted" if accepted else "restart_refused"])


# ----------------------------------------------------------------------------- notifications part
def gen_notify(d, tier):
    n = d.int(1, 12)
    items = [[i, d.chance(1, 4)] for i in range(n)]
    return {"cfg": {"threaded": d.chance(1, 4)}, "acts": items}


def run_notify(trace):
    items = trace["acts"]
    log = []
    fails = {i for i, f in items if f}

    def handler(n):
        log.append(n.path)
        if int(n.path) in fails:
            raise RuntimeError("handler failure (scripted)")
    nm = NotificationManager(handler)
    if trace["cfg"]["threaded"]:
        nm.start()
        for i, _ in items:
            nm.notify(Notification(SourceEnum.SYNC, NotificationType.TEMPORARY_ERROR, str(i)))
        t0 = time.time()
        while len(log) < len(items) and time.time() - t0 < 5:
            time.sleep(0.001)
        nm.stop(forever=True, wait=True)
    else:
        for i, _ in items:
            nm.notify(Notification(SourceEnum.SYNC, NotificationType.TEMPORARY_ERROR, str(i)))
        steps = [0]

        def until():
            steps[0] += 1
            return len(log) >= len(items) or steps[0] > len(items) + 2
        nm.run(until=until, sleep=0)
    want = [str(i) for i, _ in items]
    if log != want:
        return violation("ordered_once", "handler saw %r, notifications were %r (failing handlers at %r)" % (log, want, sorted(fails)))
    nt = any(f and idx < len(items) - 1 for idx, (i, f) in enumerate(items))
    return ok(nontrivial=nt, labels=["notify", "threaded" if trace["cfg"]["threaded"] else "inthread"])


PARTS = {"protocol": (gen_protocol, run_protocol), "notify": (gen_notify, run_notify), "restart": (gen_restart, run_restart)}


def budget(tier):
    q = tier == "quick"
    return [{"workers": 16, "examples": 600 if q else 30000},
            {"part": "protocol", "workers": 16, "examples": 40 if q else 1500},
            {"part": "notify", "workers": 16, "examples": 120 if q else 5000},
            {"part": "restart", "workers": 16, "examples": 3 if q else 40}]
