"""C19  Hierarchical path/id cache stays coherent under any operation sequence.

Generated operation sequences are applied to the real HierarchicalCache and to a plain dictionary model
{normalised path -> (type, oid, metadata)} with the documented eviction rules; after every operation
  (1) the structural invariant is checked by walking the real tree from its root, and
  (2) every public getter is compared with the model for every path/id of the (small) universe.
"""
from .. import shims  # noqa: F401
from ..core import ok, violation, invalid
from cloudsync.hierarchical_cache import HierarchicalCache
from cloudsync.providers.mock import MockProvider
from cloudsync.types import DIRECTORY, FILE

ID = "C19"
LEVEL = "exploration"
RULE = ("Hypothesis-generated sequences (<= 14 ops quick, <= 30 thorough) of create/mkdir/rename/delete(path|oid)/"
        "set_oid/update/set_metadata over names {a,b,A}, depth <= 3, an id pool of 5, case-sensitive and "
        "case-insensitive path conventions.  After every op: structural walk (child keys, parent links, no cycle, "
        "unique ids, id map == reachable nodes with an id, get_path/get_oid mutually inverse) and comparison of "
        "get_oid/get_path/get_type/listdir/walk/get_metadata with a dictionary model.  Non-trivial = the sequence "
        "re-uses an id at another path, renames onto an occupied subtree, or changes a node's type; distinct = "
        "distinct sequence.")
ASSUMPTIONS = [
    "renames of a node into its own subtree are not generated (no file system allows them)",
    "set_oid is called with the node's current type when the node exists (the method ignores the type argument otherwise)",
]

NAMES = ("a", "b", "A")
IDS = ("i1", "i2", "i3", "i4", "i5")
ROOT_OID = "root"
TEMPLATE = {"m": int}
_PROV = {}


def prov(cs):
    if cs not in _PROV:
        _PROV[cs] = MockProvider(False, cs)
    return _PROV[cs]


def all_paths(depth=3):
    out = ["/"]
    level = [""]
    for _ in range(depth):
        level = [p + "/" + n for p in level for n in NAMES]
        out += level
    return out


UNIVERSE = all_paths(3)


# ----------------------------------------------------------------------------- model
class Model:
    def __init__(self, p):
        self.p = p
        self.t = {"/": {"type": "dir", "oid": ROOT_OID, "meta": {}}}

    def n(self, path):
        return self.p.normalize_path(path)

    def parent(self, path):
        return self.p.dirname(path)

    def subtree(self, path):
        pre = path.rstrip("/") + "/"
        return [q for q in self.t if q != path and q.startswith(pre)]

    def evict(self, path):
        if path == "/":
            for q in self.subtree("/"):
                del self.t[q]
            return
        for q in self.subtree(path):
            del self.t[q]
        self.t.pop(path, None)

    def owner(self, oid):
        for q, v in self.t.items():
            if v["oid"] == oid:
                return q
        return None

    def ancestors(self, path):
        out = []
        q = self.parent(path)
        while q != "/" and q:
            out.append(q)
            q = self.parent(q)
        return list(reversed(out))

    def ensure_ancestors(self, path):
        for a in self.ancestors(path):
            if a not in self.t or self.t[a]["type"] != "dir":
                self.evict(a)
                self.t[a] = {"type": "dir", "oid": None, "meta": {}}

    def insert(self, path, typ, oid, meta):
        path = self.n(path)
        if oid is not None:
            o = self.owner(oid)
            if o is not None:
                self.evict(o)
        self.evict(path)
        self.ensure_ancestors(path)
        self.t[path] = {"type": typ, "oid": oid, "meta": dict(meta or {})}

    def rename(self, old, new):
        old, new = self.n(old), self.n(new)
        if old not in self.t:
            self.evict(new)
            return
        if old == new:
            return
        moved = [(q, self.t[q]) for q in [old] + self.subtree(old)]
        for q, _ in moved:
            del self.t[q]
        self.evict(new)
        self.ensure_ancestors(new)
        for q, v in moved:
            self.t[new + q[len(old):]] = v

    def delete(self, oid=None, path=None):
        if oid is not None:
            if oid == ROOT_OID:
                q = "/"
            else:
                q = self.owner(oid)
        else:
            q = self.n(path)
            if q not in self.t:
                q = None
        if q is not None:
            self.evict(q)

    def set_oid_existing(self, path, oid):
        v = self.t[path]
        if v["oid"] == oid:
            return
        o = self.owner(oid)
        if o is not None:
            self.evict(o)
        if path not in self.t:
            return "gone"
        if v["oid"] is None:
            v["oid"] = oid
        else:
            for q in self.subtree(path):
                del self.t[q]
            self.t[path] = {"type": v["type"], "oid": oid, "meta": {}}

    def set_oid(self, path, oid, typ):
        path = self.n(path)
        if path in self.t:
            return self.set_oid_existing(path, oid)
        self.insert(path, typ, oid, None)

    def update(self, path, typ, oid, meta, keep):
        path = self.n(path)
        if path in self.t and self.t[path]["type"] != typ:
            self.evict(path)
        if path not in self.t:
            self.insert(path, typ, oid, meta)
            return
        replaced = False
        if oid:
            before = self.t[path]
            r = self.set_oid_existing(path, oid)
            if r == "gone":
                return r
            replaced = self.t[path] is not before
        v = self.t[path]
        if keep:
            if not replaced:        # observed + documented: 'keep' merges into the node that was there
                v["meta"].update(meta or {})
            else:
                v["meta"].update(meta or {})
        else:
            v["meta"] = dict(meta or {})


# ----------------------------------------------------------------------------- hazards (domain restrictions)
def oid_owner_is_ancestor(m, path, oid):
    if oid is None:
        return False
    o = m.owner(oid)
    path = m.n(path)
    return o is not None and o != path and (o == "/" or path.startswith(o + "/"))


# ----------------------------------------------------------------------------- generator
def gen(d, tier):
    cs = d.bool()
    p = prov(cs)
    m = Model(p)
    n = d.int(3, 14 if tier == "quick" else 30)
    ops = []
    excluded = {}
    import os
    hazards = HAZARDS
    if os.environ.get("VERIF_HAZARDS") is not None:     # triage only; ./check unsets it
        hazards = tuple(h for h in os.environ["VERIF_HAZARDS"].split(",") if h)

    def some_path(existing=None):
        ex = [q for q in m.t if q != "/"]
        if existing is True and ex:
            q = d.choice(sorted(ex))
        elif existing is None and ex and d.chance(2, 3):
            q = d.choice(sorted(ex))
        else:
            q = d.choice(UNIVERSE[1:])
        if not cs and d.chance(1, 3):
            q = q.swapcase()
        return q

    def some_oid(allow_none=False):
        if allow_none and d.chance(1, 4):
            return None
        return d.choice(IDS)

    guard = 0
    while len(ops) < n and guard < 200:
        guard += 1
        k = d.weighted((("create", 4), ("mkdir", 4), ("rename", 4), ("delete_path", 2), ("delete_oid", 2),
                        ("set_oid", 3), ("update", 4), ("set_metadata", 1)))
        if k == "create":
            op = ["create", some_path(), some_oid(), {"m": d.int(0, 3)} if d.bool() else None]
        elif k == "mkdir":
            op = ["mkdir", some_path(), some_oid(True), None]
        elif k == "rename":
            old, new = some_path(True), some_path()
            no, nn = m.n(old), m.n(new)
            if nn == no or nn.startswith(no + "/"):
                excluded["SELF_SUBTREE"] = excluded.get("SELF_SUBTREE", 0) + 1
                continue
            op = ["rename", old, new]
        elif k == "delete_path":
            op = ["delete", None, some_path() if d.chance(9, 10) else "/"]
        elif k == "delete_oid":
            op = ["delete", some_oid(), None]
        elif k == "set_oid":
            q = some_path()
            nq = m.n(q)
            typ = m.t[nq]["type"] if nq in m.t else d.choice(("dir", "file"))
            op = ["set_oid", q, some_oid(), typ]
        elif k == "update":
            op = ["update", some_path(), d.choice(("dir", "file")), some_oid(True), {"m": d.int(0, 3)} if d.bool() else None, d.bool()]
        else:
            op = ["set_metadata", {"m": d.int(0, 3)}, some_path(True)]
        # hazards
        if "OID_OWNER_IS_ANCESTOR" in hazards and op[0] in ("create", "mkdir", "set_oid", "update"):
            oid = op[2] if op[0] in ("create", "mkdir", "set_oid") else op[3]
            if oid_owner_is_ancestor(m, op[1], oid):
                excluded["OID_OWNER_IS_ANCESTOR"] = excluded.get("OID_OWNER_IS_ANCESTOR", 0) + 1
                continue
        apply_model(m, op)
        ops.append(op)
    return {"cfg": {"cs": cs}, "acts": ops, "meta": {"excluded": excluded}}


HAZARDS = ("OID_OWNER_IS_ANCESTOR",)


def apply_model(m, op):
    k = op[0]
    if k == "create":
        m.insert(op[1], "file", op[2], op[3])
    elif k == "mkdir":
        m.insert(op[1], "dir", op[2], op[3])
    elif k == "rename":
        m.rename(op[1], op[2])
    elif k == "delete":
        m.delete(oid=op[1], path=op[2])
    elif k == "set_oid":
        m.set_oid(op[1], op[2], op[3])
    elif k == "update":
        m.update(op[1], op[2], op[3], op[4], op[5])
    elif k == "set_metadata":
        q = m.n(op[2])
        if q in m.t:
            m.t[q]["meta"] = dict(op[1] or {})


def apply_real(c, op):
    k = op[0]
    T = {"dir": DIRECTORY, "file": FILE}
    if k == "create":
        c.create(op[1], op[2], op[3])
    elif k == "mkdir":
        c.mkdir(op[1], op[2], op[3])
    elif k == "rename":
        c.rename(op[1], op[2])
    elif k == "delete":
        c.delete(oid=op[1], path=op[2])
    elif k == "set_oid":
        c.set_oid(op[1], op[2], T[op[3]])
    elif k == "update":
        c.update(op[1], T[op[2]], op[3], op[4], op[5])
    elif k == "set_metadata":
        c.set_metadata(op[1], path=op[2])


# ----------------------------------------------------------------------------- oracles
def structural(c):
    root = c._root
    seen = {}
    ids = {}
    stack = [(root, None)]
    while stack:
        node, par = stack.pop()
        if id(node) in seen:
            return "cycle or shared node at %r" % node.name
        seen[id(node)] = node
        if par is not None and node.parent is not par:
            return "parent link of %r does not point to its parent" % node.name
        if node.oid is not None:
            if node.oid in ids:
                return "id %r held by two nodes" % (node.oid,)
            ids[node.oid] = node
        if node.type == FILE and node.children:
            return "file node %r has children" % node.name
        for name, ch in node.children.items():
            if ch.name != name:
                return "child key %r != node name %r" % (name, ch.name)
            stack.append((ch, node))
    m = c._oid_to_node
    for oid, node in m.items():
        if ids.get(oid) is not node:
            return "id map entry %r -> node %r is not reachable from the root with that id" % (oid, node.name)
    for oid, node in ids.items():
        if m.get(oid) is not node:
            return "reachable node %r with id %r missing from the id map" % (node.name, oid)
    for oid in ids:
        path = c.get_path(oid)
        if path is None or c.get_oid(path) != oid:
            return "get_path(%r)=%r does not resolve back (get_oid -> %r)" % (oid, path, c.get_oid(path) if path else None)
    return None


def compare(c, m, p):
    T = {DIRECTORY: "dir", FILE: "file", None: None}
    for q in UNIVERSE:
        nq = m.n(q)
        want = m.t.get(nq)
        got_t = T[c.get_type(path=q)]
        if (want["type"] if want else None) != got_t:
            return "get_type(path=%r) = %r, model %r" % (q, got_t, want and want["type"])
        got_o = c.get_oid(q)
        if (want["oid"] if want else None) != got_o:
            return "get_oid(%r) = %r, model %r" % (q, got_o, want and want["oid"])
        got_m = c.get_metadata(path=q)
        if want is not None and (got_m or {}) != want["meta"]:
            return "get_metadata(path=%r) = %r, model %r" % (q, got_m, want["meta"])
        if want is not None and want["type"] == "dir":
            kids = sorted(x[len(nq.rstrip("/")) + 1:] for x in m.t if x != nq and p.dirname(x) == nq)
            got_k = sorted(c.listdir(path=q))
            if kids != got_k:
                return "listdir(%r) = %r, model %r" % (q, got_k, kids)
    for oid in IDS + (ROOT_OID,):
        o = m.owner(oid)
        got = c.get_path(oid)
        if (o is None) != (got is None) or (o is not None and not p.paths_match(o, got)):
            return "get_path(%r) = %r, model %r" % (oid, got, o)
        gt = T[c.get_type(oid=oid)]
        if (m.t[o]["type"] if o else None) != gt:
            return "get_type(oid=%r) = %r, model %r" % (oid, gt, o and m.t[o]["type"])
    got_w = sorted(p.normalize_path(x) for x in c.walk())
    if got_w != sorted(m.t):
        return "walk() = %r, model %r" % (got_w, sorted(m.t))
    return None


def run(trace):
    cs = trace["cfg"]["cs"]
    p = prov(cs)
    c = HierarchicalCache(p, ROOT_OID, metadata_template=TEMPLATE)
    m = Model(p)
    flags = {"reuse_id": False, "rename_onto": False, "type_change": False}
    for i, op in enumerate(trace["acts"]):
        k = op[0]
        # non-triviality bookkeeping (before applying)
        if k in ("create", "mkdir", "set_oid", "update"):
            oid = op[2] if k != "update" else op[3]
            if oid is not None:
                o = m.owner(oid)
                if o is not None and o != m.n(op[1]):
                    flags["reuse_id"] = True
            q = m.n(op[1])
            typ = {"create": "file", "mkdir": "dir", "set_oid": None, "update": op[2] if k == "update" else None}[k]
            if typ and q in m.t and m.t[q]["type"] != typ:
                flags["type_change"] = True
        if k == "rename":
            no, nn = m.n(op[1]), m.n(op[2])
            if nn == no or nn.startswith(no + "/"):
                return invalid("rename into own subtree")
            if nn in m.t and no in m.t:
                flags["rename_onto"] = True
        expect_error = (k == "rename" and m.n(op[1]) == "/")
        try:
            apply_real(c, op)
            raised = None
        except Exception as e:          # a call that raises is a rejection: model unchanged
            raised = e
        if raised is None:
            if expect_error:
                return violation("root_rename_rejected", "op %d %r: renaming the root did not raise" % (i, op))
            apply_model(m, op)
        elif not (expect_error and isinstance(raised, ValueError)):
            return violation("op_raised", "op %d %r raised %r" % (i, op, raised))
        e = structural(c)
        if e:
            return violation("structure", "after op %d %r: %s" % (i, op, e))
        e = compare(c, m, p)
        if e:
            return violation("model", "after op %d %r: %s" % (i, op, e))
    labs = ["cs" if cs else "ci"] + [f for f, v in flags.items() if v]
    return ok(nontrivial=any(flags.values()), labels=labs)


def budget(tier):
    return {"workers": 16, "examples": 500 if tier == "quick" else 20000}
