"""C06  Restart resumes from persisted state; offline changes are synchronised."""
from ..core import ok, violation
from ..gen import draw_cfg, gen_history, envelope_ok, emit_user_op, OP_KINDS
from ..restart import RestartRun
from ..hist import Stop
from ..engine import MUTATORS, InvalidTrace
from .. import oracles as O

ID = "C06"
LEVEL = "exploration"
RULE = ("Hypothesis-generated envelope histories (one-sided or two-sided disjoint, 4 id/path flavours) with 1-3 "
        "stop/start cycles placed at arbitrary step boundaries; between 'down' and 'up' users may change either side "
        "(offline changes); restart modes: storage intact / cursor rows removed / stored cursor rejected by the "
        "provider / walk marker removed.  In a third of the cycles the stop request reaches an event loop in the middle of "
        "a batch (after k = 0..3 events of that intake step: CloudSync.stop() from another thread), and a third of the "
        "cycles end before the engine has gone quiet (e.g. right after the intake step that noticed the bad cursor or did "
        "the fall-back walk).  Oracles: both roots equal the expected merged tree at every quiet point "
        "(nothing lost, duplicated or flagged '.conflicted'); after a restart at a quiet point with no offline "
        "change the engine issues no provider mutation and no download until users act again (no re-transfer).  "
        "Non-trivial = a restart with pending work (non-empty change set or undelivered events) or with offline user "
        "ops or a stop in the middle of an intake batch; distinct = distinct trace digest.")
ASSUMPTIONS = [
    "mock providers; a 'new process' is modelled by resetting both providers' in-memory event cursor to latest and building a new CloudSync over the same storage contents",
    "envelope hazards PATH_REUSE, DIRMOVE_ISOLATED, DIRMOVE_TOMB, XSIDE as for C03/C04",
    "in the windows around a restart that loses the cursor (no_cursor / bad_cursor) users only create, overwrite or mkdir: the statement promises the walk fallback for created or modified objects only; with a path-style side the same holds around a restart that lost its walk marker (open finding KF-32b: the walk overtakes a pending rename)",
    "storage is the harness DictStorage (SqliteStorage itself is decided by C09)",
]
SAFE_KINDS = tuple((k, w) for k, w in OP_KINDS if k in ("create", "write", "mkdir"))
MODES = ("intact", "no_cursor", "bad_cursor", "no_walk_marker")


def budget(tier):
    return {"workers": 16, "examples": 220 if tier == "quick" else 6000}


def gen(d, tier):
    from ..model import World
    from ..gen import emit_base
    cfg = draw_cfg(d)
    two = d.bool()
    sides = (0, 1) if two else (d.int(0, 1),)
    if not two:
        cfg["origin"] = sides[0]
    world = World(path_style=(cfg["L"] == "path", cfg["R"] == "path"))
    world.stale_strict = True       # a stop in the middle of a batch hands the engine only the first of two changes (KF-43 fence)
    acts = []
    emit_base(d, world, acts, d.choice(sides))
    ncycles = d.int(1, 3 if tier == "quick" else 4)
    lossy_modes = _lossy_modes(cfg)
    lossy_window = False        # a restart that walks (cursor lost; with a path-style side also: walk marker lost) since the last quiet point
    unsafe_ops = [False]        # a delete / rename / rmtree happened since the last quiet point

    def user_op(kinds):
        c = emit_user_op(d, world, acts, d.choice(sides), kinds=kinds)
        if c is not None and c[0] not in ("create", "write", "mkdir"):
            unsafe_ops[0] = True
    for c in range(ncycles):
        mode = d.weighted((("intact", 4), ("no_cursor", 2), ("bad_cursor", 2), ("no_walk_marker", 1)))
        if mode in lossy_modes:
            if unsafe_ops[0]:
                acts.append(["settle"])     # deletes / renames of this window must be synced before the cursor is lost
                world.settle()
                unsafe_ops[0] = False
            lossy_window = True
        kinds = SAFE_KINDS if lossy_window else OP_KINDS
        # online phase
        for _ in range(d.int(0, 4)):
            k = d.weighted((("op", 5), ("step", 5)))
            if k == "op":
                user_op(kinds)
            else:
                acts.append(["step", d.choice(("EL", "ER", "S"))])
        if d.chance(1, 3):
            acts.append(["settle"])
            world.settle()
            unsafe_ops[0] = False
            lossy_window = mode in lossy_modes
        if d.chance(1, 3):
            # the stop request arrives while an event loop is in the middle of a batch (CloudSync.stop() from another
            # thread): that intake step hands k events to the engine, then sees the stop flag
            acts.append(["stopstep", d.choice(("EL", "ER")), d.int(0, 3)])
        acts.append(["down"])
        for _ in range(d.int(0, 3)):
            user_op(kinds)
        acts.append(["up", mode])
        for _ in range(d.int(0, 3)):
            k = d.weighted((("op", 3), ("step", 5)))
            if k == "op":
                user_op(kinds)
            else:
                acts.append(["step", d.choice(("EL", "ER", "S"))])
        if c == ncycles - 1 or d.chance(2, 3):
            acts.append(["settle"])
            world.settle()
            unsafe_ops[0] = False
            lossy_window = False
        # (otherwise the next stop comes before the engine has gone quiet: e.g. right after the intake step that did
        # the fall-back walk, before any sync step)
    return {"cfg": cfg, "acts": acts, "meta": {"excluded": dict(world.excluded)}}


def _winit(world):
    world.stale_strict = True


def _lossy_modes(cfg):
    """restart modes around which users only create / overwrite / mkdir: the cursor-losing ones (the statement promises
    the walk fallback for created or modified objects only) and, when a side is path-style, also the walk that a lost
    walk marker triggers -- a walk that overtakes a pending rename of a path-style side is open finding KF-32"""
    if "path" in (cfg.get("L"), cfg.get("R")):
        return ("no_cursor", "bad_cursor", "no_walk_marker")
    return ("no_cursor", "bad_cursor")


def in_domain(trace):
    acts = [a for a in trace["acts"] if a[0] not in ("down", "up", "stopstep")]
    if not envelope_ok(dict(trace, acts=acts), world_init=_winit):
        return False
    # cursor-losing restarts: only create/write/mkdir in the surrounding windows
    acts = trace["acts"]
    bounds = [-1] + [i for i, a in enumerate(acts) if a[0] == "settle"] + [len(acts)]
    for lo, hi in zip(bounds, bounds[1:]):
        win = acts[lo + 1:hi]
        if any(a[0] == "up" and a[1] in _lossy_modes(trace["cfg"]) for a in win):
            if any(a[0] == "u" and a[2] not in ("create", "write", "mkdir") for a in win):
                return False
    depth = 0
    for i, a in enumerate(acts):
        if a[0] == "down":
            depth += 1
        elif a[0] == "up":
            depth -= 1
        elif a[0] in ("step", "settle", "stopstep") and depth:
            return False
        if a[0] == "stopstep" and (i + 1 >= len(acts) or acts[i + 1][0] != "down"):
            return False
        if depth not in (0, 1):
            return False
    return depth == 0


class Run(RestartRun):
    def __init__(self, trace):
        super().__init__(trace)
        self.watch = None       # restart info being watched for re-transfers

    def after_step(self, who):
        e = O.escaped(self.case)
        if e:
            raise Stop(violation("exception_escaped", e))
        w = self.watch
        if w is not None:
            if self.stats["user_ops"] != w["user_ops_at"]:
                self.watch = None
            else:
                bad = [c for c in self.case.calls[w["calls_at"]:] if c["name"] in MUTATORS or c["name"] == "download"]
                if bad:
                    raise Stop(violation("no_retransfer", "restart (%s) at a quiet point with no offline change, yet the engine issued %s" % (
                        w["mode"], [(c["side"], c["name"], c["path"]) for c in bad[:4]])))

    def special(self, act):
        if act[0] != "stopstep":
            return super().special(act)
        if self.is_down:
            raise InvalidTrace("stopstep while down")
        _, who, k = act
        side = 0 if who == "EL" else 1
        emgr = self.case.cs.emgrs[side]
        left = [k]

        def mangler(case, prov, orig):
            if prov._vf_side != side:
                yield from orig(prov)
                return
            for ev in orig(prov):
                if left[0] <= 0:
                    emgr.stop(forever=True, wait=False)     # what CloudSync.stop() does, seen between two events
                left[0] -= 1
                yield ev
        self.case.event_mangler = mangler
        try:
            self.do_step(who)
        finally:
            self.case.event_mangler = None
        self.stats["stop_mid_intake"] = self.stats.get("stop_mid_intake", 0) + 1

    def after_restart(self, info):
        if info["quiet"] and not info["pending"] and not info["offline_ops"]:
            self.watch = info

    def at_quiet(self, rounds, final):
        if self.exp is None:
            return
        e = O.equals_expected(self.case, self.exp)
        if e:
            raise Stop(violation("resumes_exactly" if ".conflicted" not in e else "no_conflict_artefact", e))

    def finish(self):
        cfg = self.trace["cfg"]
        labs = ["flavour:%s/%s" % (cfg["L"], cfg["R"])]
        nt = False
        if self.stats.get("stop_mid_intake"):
            labs.append("stop_mid_intake")
            nt = True
        for r in self.restarts:
            labs.append("restart:" + r["mode"])
            if r["offline_ops"]:
                labs.append("offline_ops")
            if r["pending"] or r["quiet"] is False:
                labs.append("pending_at_stop")
            if r["offline_ops"] or r["pending"] or r["quiet"] is False:
                nt = True
            if r["quiet"] and not r["pending"] and not r["offline_ops"]:
                labs.append("restart_at_quiet")
        return ok(nontrivial=nt, labels=sorted(set(labs)))


def run(trace):
    return Run(trace).execute()
