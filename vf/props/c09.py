"""C09  Storage backends behave as a durable, tag-isolated map (tag, id) -> bytes."""
import os
import threading

from .. import shims
from ..core import ok, violation, invalid
from ..engine import DictStorage
from cloudsync.sync.sqlite_storage import SqliteStorage
from cloudsync.tests.fixtures.mock_storage import MockStorage

ID = "C09"
LEVEL = "exploration"
RULE = ("Hypothesis-generated sequences of create/update/delete/read/read_all(tag)/read_all()/close+reopen over 3 tags; "
        "row ids are taken from live rows, deleted rows, rows of another tag and never-issued ids; values are bytes "
        "(empty, non-UTF-8, 64 KiB) or ints (cursors).  Backends: SqliteStorage on a scratch file, SqliteStorage on a "
        "shared in-memory database, the MockStorage fixture, the harness DictStorage.  Oracle: dict model "
        "{(tag,id) -> value} compared after every op (results, error/no-error, read_all exactness, cross-tag "
        "isolation, visibility after reopen).  Part 'threads': 8 threads x generated op lists on thread-private rows of "
        "one SqliteStorage; final read_all must equal the merged per-thread models (sampled OS schedules).  "
        "Non-trivial = a read after >=1 update of that row, a cross-tag id collision probe, or a reopen after a write.")
ASSUMPTIONS = [
    "MockStorage (test fixture): reads of missing rows and second instances over the same dict are not generated (open finding KF-17)",
    "thread interleavings are whatever the OS produces (sampled, not enumerated)",
]
TAGS = ("t1", "t2", "t3")
BACKENDS = ("sqlite_file", "sqlite_mem", "mock", "dict")
_mem_n = [0]


def val(v):
    if v[0] == "i":
        return v[1]
    if v[0] == "big":
        return bytes([v[1] % 256]) * 65536
    return bytes.fromhex(v[1])


def gen(d, tier):
    backend = d.choice(BACKENDS)
    n = d.int(3, 14 if tier == "quick" else 40)
    acts = []
    handles = []     # tag of each created row
    live = []        # generation-time liveness of each created row
    for _ in range(n):
        k = d.weighted((("create", 5), ("update", 4), ("delete", 3), ("read", 4), ("read_all_tag", 2), ("read_all", 1),
                        ("reopen", 1 if backend in ("sqlite_file", "dict") else 0)))
        tag = d.choice(TAGS)

        def value():
            c = d.int(0, 9)
            if c == 0:
                return ["i", d.int(-5, 2 ** 40)]
            if c == 1:
                return ["big", d.int(0, 255)]
            from hypothesis import strategies as st
            return ["b", d.draw(st.binary(max_size=12)).hex()]

        def rowref():
            if handles and d.chance(5, 6):
                return ["h", d.int(0, len(handles) - 1)]
            return ["raw", d.int(0, 50) * 1000 + 999]
        if k == "create":
            acts.append(["create", tag, value()])
            handles.append(tag)
            live.append(True)
        elif k == "update":
            acts.append(["update", tag, rowref(), value()])
        elif k == "delete":
            r = rowref()
            acts.append(["delete", tag, r])
            if r[0] == "h" and handles[r[1]] == tag:
                live[r[1]] = False
        elif k == "read":
            r = rowref()
            if backend == "mock":       # KF-17: MockStorage.read raises on a missing row; not generated
                ok_h = [h for h in range(len(handles)) if live[h]]
                if not ok_h:
                    continue
                h = d.choice(ok_h)
                r, tag = ["h", h], handles[h]
            acts.append(["read", tag, r])
        elif k == "read_all_tag":
            acts.append(["read_all", tag])
        elif k == "read_all":
            acts.append(["read_all", None])
        else:
            acts.append(["reopen"])
    return {"cfg": {"backend": backend}, "acts": acts}


class Backend:
    def __init__(self, kind):
        self.kind = kind
        self.path = None
        if kind == "sqlite_file":
            self.path = os.path.join(shims.scratch(), "st-%d-%d.db" % (os.getpid(), id(self)))
            self.s = SqliteStorage(self.path)
        elif kind == "sqlite_mem":
            _mem_n[0] += 1
            self.s = SqliteStorage("file:vfmem%d_%d?mode=memory&cache=shared" % (os.getpid(), _mem_n[0]))
        elif kind == "mock":
            self.dict = {}
            self.s = MockStorage(self.dict)
        else:
            self.s = DictStorage()

    def reopen(self):
        if self.kind == "sqlite_file":
            self.s.close()
            self.s = SqliteStorage(self.path)
        elif self.kind == "dict":
            self.s = DictStorage(self.s.data)
        elif self.kind == "mock":
            self.s = MockStorage(self.dict)
        else:
            raise RuntimeError("reopen not supported")

    def close(self):
        try:
            if hasattr(self.s, "close"):
                self.s.close()
        finally:
            if self.path:
                for suf in ("", "-wal", "-shm"):
                    try:
                        os.unlink(self.path + suf)
                    except OSError:
                        pass


def run(trace):
    kind = trace["cfg"]["backend"]
    b = Backend(kind)
    try:
        return _run(trace, b, kind)
    finally:
        b.close()


def _run(trace, b, kind):
    model = {}          # (tag, id) -> value
    ids = []            # real id per handle
    updated = set()
    flags = {"read_after_update": False, "cross_tag_probe": False, "reopen_after_write": False}
    wrote = False
    for i, a in enumerate(trace["acts"]):
        k = a[0]

        def rid(ref):
            if ref[0] == "h":
                if ref[1] >= len(ids):
                    raise IndexError
                return ids[ref[1]]
            return ref[1]
        try:
            if k == "create":
                tag, v = a[1], val(a[2])
                new = b.s.create(tag, v)
                if (tag, new) in model:
                    return violation("create_fresh_id", "op %d: create(%r) returned id %r which is a live row of that tag" % (i, tag, new))
                model[(tag, new)] = v
                ids.append(new)
                wrote = True
            elif k == "update":
                tag, r, v = a[1], rid(a[2]), val(a[3])
                live = (tag, r) in model
                if not live and any(t != tag and x == r for (t, x) in model):
                    flags["cross_tag_probe"] = True
                try:
                    b.s.update(tag, v, r)
                    raised = False
                except Exception:
                    raised = True
                if live and raised:
                    return violation("update_live", "op %d: update of live row (%r,%r) raised" % (i, tag, r))
                if not live and not raised:
                    return violation("update_missing_is_error", "op %d: update of missing row (%r,%r) did not raise" % (i, tag, r))
                if live:
                    model[(tag, r)] = v
                    updated.add((tag, r))
                    wrote = True
            elif k == "delete":
                tag, r = a[1], rid(a[2])
                if (tag, r) not in model and any(t != tag and x == r for (t, x) in model):
                    flags["cross_tag_probe"] = True
                try:
                    b.s.delete(tag, r)
                except Exception as e:
                    return violation("delete_idempotent", "op %d: delete(%r,%r) raised %r" % (i, tag, r, e))
                model.pop((tag, r), None)
                wrote = True
            elif k == "read":
                tag, r = a[1], rid(a[2])
                if (tag, r) not in model:
                    if kind == "mock" and not trace["cfg"].get("kf17"):
                        return invalid("MockStorage read of a missing row is not generated (KF-17)")
                    if any(t != tag and x == r for (t, x) in model):
                        flags["cross_tag_probe"] = True
                try:
                    got = b.s.read(tag, r)
                except Exception as e:
                    return violation("read", "op %d: read(%r,%r) raised %r" % (i, tag, r, e))
                want = model.get((tag, r))
                if got != want or type(got) is not type(want):
                    return violation("read", "op %d: read(%r,%r) = %r, model %r" % (i, tag, r, _short(got), _short(want)))
                if (tag, r) in updated:
                    flags["read_after_update"] = True
            elif k == "read_all":
                tag = a[1]
                got = b.s.read_all(tag) if tag is not None else b.s.read_all()
                if tag is not None:
                    want = {x: v for (t, x), v in model.items() if t == tag}
                else:
                    want = {}
                    for (t, x), v in model.items():
                        want.setdefault(t, {})[x] = v
                    got = {t: r for t, r in got.items() if r}
                if got != want:
                    return violation("read_all", "op %d: read_all(%r) = %s, model %s" % (i, tag, _short(got), _short(want)))
            elif k == "reopen":
                if kind == "mock" and not trace["cfg"].get("kf17"):
                    return invalid("MockStorage second instance is not generated (KF-17)")
                if kind not in ("sqlite_file", "dict", "mock"):
                    return invalid("reopen unsupported")
                b.reopen()
                if wrote:
                    flags["reopen_after_write"] = True
                got = {t: r for t, r in b.s.read_all().items() if r}
                want = {}
                for (t, x), v in model.items():
                    want.setdefault(t, {})[x] = v
                if got != want:
                    return violation("durable", "op %d: after reopen read_all() = %s, model %s" % (i, _short(got), _short(want)))
        except IndexError:
            return invalid("handle out of range")
        # cross-tag isolation / exactness after every op (cheap)
        for t in TAGS:
            got = b.s.read_all(t)
            want = {x: v for (tt, x), v in model.items() if tt == t}
            if got != want:
                return violation("tag_isolation", "after op %d %r: read_all(%r) = %s, model %s" % (i, a[:2], t, _short(got), _short(want)))
    labs = ["backend:" + kind] + [f for f, v in flags.items() if v]
    return ok(nontrivial=any(flags.values()), labels=labs)


def _short(x):
    s = repr(x)
    return s if len(s) < 200 else s[:200] + "..."


# ----------------------------------------------------------------------------- threads part
def gen_threads(d, tier):
    nthreads = 8
    lists = []
    for t in range(nthreads):
        n = d.int(2, 12)
        ops = []
        nrows = 0
        for _ in range(n):
            k = d.weighted((("create", 4), ("update", 4), ("delete", 2)))
            if k == "create" or nrows == 0:
                ops.append(["create", d.choice(TAGS), d.int(0, 255)])
                nrows += 1
            elif k == "update":
                ops.append(["update", d.int(0, nrows - 1), d.int(0, 255)])
            else:
                ops.append(["delete", d.int(0, nrows - 1)])
        lists.append(ops)
    return {"cfg": {"backend": d.choice(("sqlite_file", "sqlite_mem"))}, "acts": lists}


def run_threads(trace):
    b = Backend(trace["cfg"]["backend"])
    try:
        models = [dict() for _ in trace["acts"]]
        errors = []
        start = threading.Barrier(len(trace["acts"]))

        def work(idx, ops):
            rows = []
            m = models[idx]
            try:
                start.wait(timeout=10)
                for op in ops:
                    if op[0] == "create":
                        v = bytes([op[2]]) * 3 + b"-%d" % idx
                        rid = b.s.create(op[1], v)
                        rows.append((op[1], rid))
                        m[(op[1], rid)] = v
                    elif op[0] == "update":
                        tag, rid = rows[op[1]]
                        if (tag, rid) in m:
                            v = bytes([op[2]]) * 2 + b"u%d" % idx
                            b.s.update(tag, v, rid)
                            m[(tag, rid)] = v
                    else:
                        tag, rid = rows[op[1]]
                        if (tag, rid) in m:         # ids of deleted rows may legitimately be re-issued to another thread
                            b.s.delete(tag, rid)
                            m.pop((tag, rid), None)
            except Exception as e:
                errors.append((idx, repr(e)))
        ths = [threading.Thread(target=work, args=(i, ops)) for i, ops in enumerate(trace["acts"])]
        for t in ths:
            t.start()
        for t in ths:
            t.join(30)
        if any(t.is_alive() for t in ths):
            return ok(labels=["inconclusive_timeout"])
        if errors:
            return violation("threads_no_error", "storage call failed under concurrent use: %r" % errors[:3])
        want = {}
        keys = set()
        for m in models:
            for (t, x), v in m.items():
                if (t, x) in keys:
                    return violation("threads_unique_ids", "two threads were given the same id %r for tag %r" % (x, t))
                keys.add((t, x))
                want.setdefault(t, {})[x] = v
        # ids handed out to different threads must be distinct even for rows since deleted? not required by the statement
        got = {t: r for t, r in b.s.read_all().items() if r}
        if got != want:
            return violation("threads_no_lost_write", "final read_all() = %s, merged model %s" % (_short(got), _short(want)))
        return ok(nontrivial=sum(len(o) for o in trace["acts"]) >= 16, labels=["threads"])
    finally:
        b.close()


PARTS = {"threads": (gen_threads, run_threads)}


def budget(tier):
    q = tier == "quick"
    return [{"workers": 16, "examples": 250 if q else 8000},
            {"part": "threads", "workers": 8, "examples": 25 if q else 500}]
