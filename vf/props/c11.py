"""C11  Sync-state index integrity: id and path lookups always agree with entries.

main : state-level machine (no engine): generated provider events in the shape EventManager hands to
       SyncState.update (incl. duplicated, stale, out-of-order ones), plus the mutations the sync manager performs
       (split, merge of side states, ignore/unignore, direct assignments of path/oid/changed/sync markers/exists,
       finished, storage_commit).  The integrity predicate is evaluated after every operation.
engine: the same predicate as an invariant after every step of generated engine histories (with conflict gadgets).
"""
from .. import shims  # noqa: F401  (must precede any cloudsync import)
from cloudsync.sync.state import SyncState, SyncEntry, Exists
from cloudsync.types import OType, IgnoreReason, LOCAL, REMOTE, DIRECTORY, FILE
from cloudsync.providers.mock import MockProvider
from cloudsync import exceptions as ex

from ..core import ok, violation, invalid
from ..engine import DictStorage
from ..gen import draw_cfg, gen_history, envelope_ok
from ..hist import HistoryRun, Stop
from .. import oracles as O
from . import c01

ID = "C11"
LEVEL = "exploration"
RULE = ("main: Hypothesis-generated sequences (<= 14 ops quick / 30 thorough) over 2 sides x {id-style, path-style}: "
        "update(side, otype, oid, path|None, hash, exists in True/False/None, prior_oid) with ids/paths from small "
        "pools (4 ids, 7 paths incl. parent/child pairs; stale, duplicated, out-of-order by construction), split, "
        "side-state merge, ignore/unignore, direct assignments (path, oid, changed, sync_path, sync_hash, exists), "
        "finished, storage_commit.  engine: every step of generated engine histories.  Oracle after every op/step: "
        "every live entry is found under its id and (stale) path; every id slot and every (path,id) slot leads to an "
        "entry carrying exactly that id/path; no empty path bucket; pending set == entries with a change flag and an "
        "id on some side, all of them reachable.  Non-trivial = the sequence "
        "re-uses an id or a path slot, or contains a split/merge (main); a step that changed the indexes (engine).")
ASSUMPTIONS = [
    "events have the shape EventManager._process_event produces for the side's id style (path-style: oid == path, renames carry prior_oid)",
    "preconditions mirror the code's own asserts and callers (a path is only assigned to a side that has an oid; split needs a local oid; a change flag is only raised on a side that has an oid)",
    "upstream SyncState.assert_index_is_correct() is NOT used as an oracle: it demands pending membership for a change flag without an id, which the statement excludes",
    "OIDLESS_CHILD: an entry's path is not changed while another entry that lost its id (ousted) still sits below the old path (open finding KF-55: AssertionError out of _update_kids)",
    "DIR_UNDER_OWN_OLD_PATH: a folder entry's path is never set to a path below its own previous path (open finding KF-16: unbounded recursion in _update_kids)",
]
IDS = ("a1", "a2", "a3", "a4")
PATHS = ("/r", "/r/x", "/r/x/y", "/s", "/s/x", "/t", "/r/z")
HASHES = (None, b"h1", b"h2")


def integrity(state):
    """-> None | description of the broken clause"""
    universe = set()
    for side in (LOCAL, REMOTE):
        for oid, ent in state._oids[side].items():
            universe.add(ent)
            if ent[side].oid != oid:
                return "id slot (%d, %r) leads to an entry that carries id %r" % (side, oid, ent[side].oid)
        for path, bucket in state._paths[side].items():
            if not bucket:
                return "empty path bucket (%d, %r)" % (side, path)
            for oid, ent in bucket.items():
                universe.add(ent)
                if ent[side].path != path or ent[side].oid != oid:
                    return "(path,id) slot (%d, %r, %r) leads to an entry carrying (%r, %r)" % (side, path, oid, ent[side].path, ent[side].oid)
    for ent in list(universe):
        for side in (LOCAL, REMOTE):
            oid, path = ent[side].oid, ent[side].path
            if oid is not None:
                if state.lookup_oid(side, oid) is not ent:
                    return "live entry not found under its id (%d, %r)" % (side, oid)
                if path:
                    if ent not in state.lookup_path(side, path, stale=True):
                        return "live entry not found under its path (%d, %r)" % (side, path)
    pending = set(state._changeset_storage)
    for ent in pending:
        if ent not in universe:
            if not any(ent[s].oid is not None for s in (0, 1)):
                return "pending set holds an entry that has no id at all (forgotten entry)"
            return "pending set holds an entry that is not reachable through any index"
        if not any(ent[s].changed and ent[s].oid is not None for s in (0, 1)):
            return "pending set holds an entry without (change flag and id) on any side: %s" % (ent,)
    for ent in universe:
        if any(ent[s].changed and ent[s].oid is not None for s in (0, 1)) and ent not in pending:
            return "entry with a change flag and an id is missing from the pending set: %s" % (ent,)
    return None


# ----------------------------------------------------------------------------- main (state-level) part
def budget(tier):
    q = tier == "quick"
    return [{"workers": 16, "examples": 500 if q else 20000},
            {"part": "engine", "workers": 16, "examples": 90 if q else 2500}]


def gen(d, tier):
    styles = (d.choice(("id", "path")), d.choice(("id", "path")))
    n = d.int(3, 14 if tier == "quick" else 30)
    acts = []
    for _ in range(n):
        k = d.weighted((("event", 8), ("split", 1), ("merge", 1), ("ignore", 1), ("unignore", 1), ("assign", 3),
                        ("finished", 1), ("commit", 1)))
        side = d.int(0, 1)
        if k == "event":
            otype = d.choice(("file", "dir"))
            exists = d.choice((True, True, False, None))
            if styles[side] == "path":
                path = d.choice(PATHS)
                prior = d.choice(PATHS) if d.chance(2, 5) else None
                ev = ["event", side, otype, path, path, d.choice(HASHES) if otype == "file" else None, exists, prior]
                if prior is not None and d.chance(1, 2):
                    # the provider fails (temporary error) on the k-th lookup the state makes while it applies this
                    # event (re-keying the children of a renamed folder): the event manager backs off and retries
                    # later; the index must be intact in between
                    ev.append(d.int(0, 1))
                acts.append(ev)
            else:
                oid = d.choice(IDS)
                path = d.choice(PATHS) if d.chance(2, 3) else None
                acts.append(["event", side, otype, oid, path, d.choice(HASHES) if otype == "file" else None, exists, None])
        elif k in ("split", "finished"):
            acts.append([k, d.int(0, 7)])
        elif k == "merge":
            acts.append(["merge", side, d.int(0, 7), d.int(0, 7)])
        elif k == "ignore":
            acts.append(["ignore", d.int(0, 7), d.choice(("discarded", "conflict", "irrelevant", "temp rename"))])
        elif k == "unignore":
            acts.append(["unignore", d.int(0, 7)])
        elif k == "assign":
            f = d.choice(("path", "oid", "changed", "sync_path", "sync_hash", "exists"))
            if f == "path":
                v = d.choice(PATHS + (None,))
            elif f == "oid":
                v = d.choice(PATHS if styles[side] == "path" else IDS) if d.chance(4, 5) else None
            elif f == "changed":
                v = d.choice((0, None, 5.0, 1000.5))
            elif f == "sync_path":
                v = d.choice(PATHS + (None,))
            elif f == "sync_hash":
                v = d.choice(HASHES)
            else:
                v = d.choice(("exists", "trashed", "missing", "unknown", "likely-trashed"))
            acts.append(["assign", d.int(0, 7), side, f, v])
        else:
            acts.append(["commit"])
    return {"cfg": {"styles": list(styles)}, "acts": acts}


class _FaultyMock(MockProvider):
    """info_path raises CloudTemporaryError on the (fail_in+1)-th call after fail_in was set"""
    fail_in = None

    def info_path(self, path, use_cache=True):
        if self.fail_in is not None:
            if self.fail_in <= 0:
                self.fail_in = None
                raise ex.CloudTemporaryError("scripted lookup failure")
            self.fail_in -= 1
        info = super().info_path(path, use_cache)
        if info is None and self.oid_is_path:
            # the state asks where a child of a renamed folder lives now: on a path-style provider the object at a path
            # has that path as its id (the mock itself is empty in this part, the state is fed events directly)
            from cloudsync.types import OInfo
            return OInfo(otype=FILE, oid=self.normalize_path(path), hash=None, path=path, size=0, mtime=None)
        return info


def _entries(state):
    out = set()
    for side in (0, 1):
        out.update(state._oids[side].values())
    out.update(state._changeset_storage)
    return sorted(out, key=lambda e: e._serial)


def run(trace):
    shims.reset(0)
    styles = trace["cfg"]["styles"]
    provs = (_FaultyMock(styles[0] == "path", True), _FaultyMock(styles[1] == "path", True))
    for p_ in provs:
        p_.connect({"key": "val"})
    state = SyncState(provs, DictStorage(), tag="T")
    flags = {"reuse": False, "splitmerge": False, "abandon_with_copy": False, "fault_in_update": False}
    seen_oid = [set(), set()]
    seen_path = [set(), set()]
    hazard_skips = 0
    import os
    off = set(trace["cfg"].get("hazards_off", []))
    if os.environ.get("VERIF_FHAZARDS") is not None:          # triage only; ./check unsets it
        off = {"KF-16", "KF-55"} - {h for h in os.environ["VERIF_FHAZARDS"].split(",") if h}
    for i, a in enumerate(trace["acts"]):
        k = a[0]
        ents = _entries(state)
        try:
            if k == "event":
                _, side, otype, oid, path, h, exists, prior = a[:8]
                fail_in = a[8] if len(a) > 8 else None
                ent0 = state.lookup_oid(side, oid)
                if "KF-16" not in off and _dir_under_own_old_path(state, side, ent0, path, prior):
                    hazard_skips += 1
                    continue
                if "KF-55" not in off and _oidless_child_below(state, side, ent0, prior, path):
                    hazard_skips += 1
                    continue
                if _abandon_with_copy(state, side, oid, prior):
                    flags["abandon_with_copy"] = True
                if oid in seen_oid[side] or (path and path in seen_path[side]):
                    flags["reuse"] = True
                seen_oid[side].add(oid)
                if path:
                    seen_path[side].add(path)
                provs[side].fail_in = fail_in
                try:
                    state.update(side, OType(otype), oid, path=path, hash=h, exists=exists, prior_oid=prior)
                except ex.CloudTemporaryError:
                    flags["fault_in_update"] = True      # scripted provider fault: legitimate, integrity is checked below
                finally:
                    provs[side].fail_in = None
            elif k == "split":
                if not ents:
                    continue
                e = ents[a[1] % len(ents)]
                if e[LOCAL].oid is None:
                    continue
                state.split(e)
                flags["splitmerge"] = True
            elif k == "merge":
                if len(ents) < 2:
                    continue
                side = a[1]
                dst, src = ents[a[2] % len(ents)], ents[a[3] % len(ents)]
                if dst is src:
                    continue
                if dst[side].path is not None and dst[side].path != src[side].path:
                    continue        # the engine only merges side states of entries that stand for the same path
                if src[side].oid is None:
                    continue        # ... and only side states that have an id (every call site moves a side it just looked up)
                src_changed = bool(src[side].changed)
                dst[side] = src[side]
                if src_changed:
                    # both engine call sites that move a *changed* side state discard the donor right afterwards
                    # (handle_split_conflict, resolve_conflict); check_disjoint_create only moves unchanged ones
                    src.ignore(IgnoreReason.DISCARDED)
                flags["splitmerge"] = True
            elif k == "ignore":
                if ents:
                    ents[a[1] % len(ents)].ignore(IgnoreReason(a[2]))
            elif k == "unignore":
                if ents:
                    e = ents[a[1] % len(ents)]
                    e.unignore(e.ignored)
            elif k == "finished":
                if ents:
                    e = ents[a[1] % len(ents)]
                    for s in (0, 1):
                        e[s].changed = 0
                    state.finished(e)
            elif k == "assign":
                if not ents:
                    continue
                _, idx, side, f, v = a
                e = ents[idx % len(ents)]
                if f in ("path", "oid") and styles[side] == "path":
                    continue                                    # path-style: oid == path is maintained by the event path only
                if f == "path":
                    if v and e[side].oid is None:
                        continue                                    # code asserts an oid before a path
                    if "KF-16" not in off and _dir_under_own_old_path(state, side, e, v, None):
                        hazard_skips += 1
                        continue
                    if "KF-55" not in off and _oidless_child_below(state, side, e, None, v):
                        hazard_skips += 1
                        continue
                    e[side].path = v
                elif f == "changed" and v and e[side].oid is None:
                    continue                                    # the engine only flags a change on a side it has an id for
                elif f == "oid":
                    e[side].oid = v
                elif f == "exists":
                    e[side].exists = Exists(v)
                else:
                    setattr(e[side], f, v)
            elif k == "commit":
                state.storage_commit()
        except RecursionError:
            return violation("op_raised", "op %d %r: unbounded recursion" % (i, a))
        except AssertionError as e:
            return violation("op_raised", "op %d %r tripped an internal assertion: %r" % (i, a, e))
        except Exception as e:
            return violation("op_raised", "op %d %r raised %r" % (i, a, e))
        err = integrity(state)
        if err:
            return violation("index_integrity", "after op %d %r: %s" % (i, a, err))
    labs = ["styles:%s/%s" % tuple(styles)] + [f for f, v in flags.items() if v] + (["hazard_skipped"] if hazard_skips else [])
    return ok(nontrivial=any(flags.values()), labels=labs)


def _abandon_with_copy(state, side, oid, prior_oid):
    """classifier (was hazard ABANDON_WITH_COPY until KF-35 was repaired): the branch of SyncState.update that re-uses
    the prior entry and moves the other side's state over from the entry found under the new oid."""
    if not prior_oid or prior_oid == oid:
        return False
    ent = state.lookup_oid(side, oid)
    prior = state.lookup_oid(side, prior_oid)
    if ent is None or prior is None or prior.is_discarded:
        return False
    if ent.is_conflicted or not (prior[side].sync_hash or not ent[side].sync_hash):
        return False
    return ent[1 - side].oid is not None and prior[1 - side].oid is None


def _oidless_child_below(state, side, ent, prior_oid, new_path):
    """hazard OIDLESS_CHILD (open finding KF-55): the path of an entry is about to change while some other entry sits
    below its old path with a path but without an id on that side (it was ousted from its id): _update_kids re-paths
    that child and trips `assert ent[side].oid` in _change_path"""
    cands = [ent] if ent is not None else []
    if prior_oid is not None:
        p = state.lookup_oid(side, prior_oid)
        if p is not None:
            cands.append(p)
    allents = set(state._changeset_storage)
    for sd in (0, 1):
        allents.update(state._oids[sd].values())
    for e in cands:
        old = e[side].path
        if not old or old == new_path:
            continue
        for o in allents:
            if o is not e and o[side].oid is None and o[side].path and o[side].path.startswith(old + "/"):
                return True
    return False


def _dir_under_own_old_path(state, side, ent, new_path, prior_oid):
    """hazard DIR_UNDER_OWN_OLD_PATH (KF-16)"""
    cands = [ent] if ent is not None else []
    if prior_oid is not None:
        p = state.lookup_oid(side, prior_oid)
        if p is not None:
            cands.append(p)
    for e in cands:
        old = e[side].path
        if old and new_path and e[side].otype == DIRECTORY and new_path != old and new_path.startswith(old + "/"):
            return True
        if old and new_path and new_path != old and new_path.startswith(old + "/"):
            # the event may retype the entry to a folder in the same call
            return True
    return False


# ----------------------------------------------------------------------------- engine part
def gen_engine(d, tier):
    cfg = draw_cfg(d)
    acts, world = gen_history(d, cfg, sides=(0, 1), n_ops=(3, 8) if tier == "quick" else (3, 14), w_op=5, w_gadget=2,
                              shapes=c01.shapes_for(cfg))
    return {"cfg": cfg, "acts": acts, "meta": {"excluded": dict(world.excluded)}}


class EngineRun(HistoryRun):
    def __init__(self, trace):
        super().__init__(trace)
        self.changed = 0
        self._sig = None

    def after_step(self, who):
        e = O.escaped(self.case)
        if e:
            raise Stop(violation("exception_escaped", e))
        state = self.case.cs.state
        err = integrity(state)
        if err:
            raise Stop(violation("index_integrity", "after step %s: %s" % (who, err)))
        sig = tuple(sorted((s, repr(o), id(en)) for s in (0, 1) for o, en in state._oids[s].items()))
        if sig != self._sig:
            self._sig = sig
            self.changed += 1

    def finish(self):
        cfg = self.trace["cfg"]
        return ok(nontrivial=self.changed > 1, labels=["engine", "flavour:%s/%s" % (cfg["L"], cfg["R"])] + ["gadget:" + g["shape"] for g in self.gadgets])


def run_engine(trace):
    return EngineRun(trace).execute()


def in_domain(trace):
    if "styles" in trace.get("cfg", {}):
        return True
    return envelope_ok(trace)


PARTS = {"engine": (gen_engine, run_engine)}
