"""Engine harness "E" (DESIGN 1.2): two mock providers + a CloudSync, driven one
production-loop iteration at a time under a virtual clock.

A *trace* is a JSON-able dict {"cfg": {...}, "acts": [...]}.  `Case(cfg)` builds
the pair; `Case.act(a)` executes one action literally.  Everything a property
needs to observe (call log, notifications, snapshots) is collected here; the
oracles live in vf/oracles.py and the per-property modules.
"""
import io
import shutil

from . import shims
from .shims import CLOCK
from .core import CaseHang, WATCHDOG

import cloudsync
from cloudsync import CloudSync, LOCAL, REMOTE
from cloudsync.providers.mock import MockProvider
from cloudsync.sync.state import Storage
from cloudsync.types import DIRECTORY, FILE
import cloudsync.exceptions as ex

ROOTS = ("/local", "/remote")
MUTATORS = ("create", "upload", "rename", "delete", "mkdir")
SETTLE_ROUNDS = 400


class InvalidTrace(Exception):
    """A user action of the trace is not applicable (only possible for shrunk/hand-edited traces)."""


class EngineCrash(Exception):
    """The engine could not even be constructed (exception out of CloudSync.__init__)."""


class HarnessError(Exception):
    """The harness itself is inconsistent (never a property violation)."""


def blob(content):
    """Content string -> bytes.  'c7' -> b'c7';  'c7#3000' -> 3000 bytes starting with b'c7#3000:'."""
    if isinstance(content, bytes):
        return content
    if "#" in content:
        n = int(content.rsplit("#", 1)[1])
        head = (content + ":").encode()
        if n <= len(head):
            return head[:n] if n else b""
        filler = (content.encode() + b".") * (n // (len(content) + 1) + 1)
        return (head + filler)[:n]
    return content.encode()


class DictStorage(Storage):
    """Harness reference storage: dict of dicts with monotonically increasing ids.
    `data` can be shared with a successor instance (restart)."""

    def __init__(self, data=None):
        self.data = data if data is not None else {"rows": {}, "next": 1}
        self.on_write = None        # hook(kind, tag, eid) called BEFORE the write takes effect

    def _w(self, kind, tag, eid):
        if self.on_write:
            self.on_write(kind, tag, eid)

    def create(self, tag, serialization):
        self._w("create", tag, None)
        eid = self.data["next"]
        self.data["next"] += 1
        self.data["rows"].setdefault(tag, {})[eid] = serialization
        return eid

    def update(self, tag, serialization, eid):
        self._w("update", tag, eid)
        rows = self.data["rows"].setdefault(tag, {})
        if eid not in rows:
            raise ValueError("id %s doesn't exist" % eid)
        rows[eid] = serialization
        return 1

    def delete(self, tag, eid):
        self._w("delete", tag, eid)
        self.data["rows"].setdefault(tag, {}).pop(eid, None)

    def read_all(self, tag=None):
        if tag is not None:
            return dict(self.data["rows"].get(tag, {}))
        return {t: dict(r) for t, r in self.data["rows"].items() if r}

    def read(self, tag, eid):
        return self.data["rows"].get(tag, {}).get(eid)


class LoggedMock(MockProvider):
    """MockProvider + call log + fault hook.  Only the outermost public call of a
    nest is logged/faulted.  `case` decides whether a call is engine- or user-made."""
    _PUBLIC = ("create", "upload", "rename", "delete", "mkdir", "download", "info_path", "info_oid",
               "listdir", "exists_oid", "exists_path", "hash_oid")

    def __init__(self, *a, **kw):
        self._vf_depth = 0
        self._vf_case = None
        self._vf_side = None
        super().__init__(*a, **kw)


def _wrap_public(name):
    orig = getattr(MockProvider, name)

    def wrapper(self, *a, **kw):
        case = self._vf_case
        if case is None or self._vf_depth or not case.in_engine:
            self._vf_depth += 1
            try:
                return orig(self, *a, **kw)
            finally:
                self._vf_depth -= 1
        self._vf_depth += 1
        try:
            return case._engine_call(self, name, orig, a, kw)
        finally:
            self._vf_depth -= 1
    wrapper.__name__ = name
    return wrapper


for _n in LoggedMock._PUBLIC:
    setattr(LoggedMock, _n, _wrap_public(_n))


def _wrap_events():
    raw = MockProvider.events

    def orig(self):
        # the mock's events() is a lazy generator: whatever public calls it makes on itself while it is being
        # iterated (event filtering looks objects up) are provider internals, not engine calls -- they are neither
        # logged nor faulted (a fault there would model a provider that loses an event after moving its own cursor)
        it = raw(self)
        while True:
            self._vf_depth += 1
            try:
                ev = next(it)
            except StopIteration:
                return
            finally:
                self._vf_depth -= 1
            yield ev

    def events(self):
        case = self._vf_case
        if case is None or not case.in_engine:
            return orig(self)
        return case._engine_events(self, orig)
    return events


LoggedMock.events = _wrap_events()


def _objects(prov):
    """Snapshot of the mock's object table.  With real engine threads running (C15/threads) the table can change while
    it is being iterated: try again instead of failing the harness."""
    for _ in range(200):
        try:
            return list(prov._mock_fs.fs_objects())
        except RuntimeError:
            continue
    return list(prov._mock_fs.fs_objects())


class Case:
    """One engine case."""

    def __init__(self, cfg, storage_data=None, cs_class=None):
        self.cfg = dict(cfg)
        shims.reset(self.cfg.get("salt", 0))
        self.in_engine = False
        self.calls = []             # engine-originated provider calls: dict(side,name,args,path,t,step,err)
        self.step_no = 0
        self.notes = []             # (step_no, Notification)
        self.escaped = []           # exceptions that escaped a step (must stay empty: production loop swallows)
        self.fault_plan = None      # callable(case, prov, name, a, kw, phase) -> exception or None
        self.event_mangler = None   # callable(case, prov, orig_events) -> iterator
        self.released = set()       # contents a user deleted/overwrote
        self.written = []           # contents users wrote, in order
        self.cs_class = cs_class or CloudSync
        kinds = (self.cfg.get("L", "id"), self.cfg.get("R", "id"))
        cs_flags = self.cfg.get("cs", (False, False) if self.cfg.get("ci") else (True, True))
        filt = self.cfg.get("filter", False)
        self.prov = []
        for side in (LOCAL, REMOTE):
            p = LoggedMock(kinds[side] == "path", bool(cs_flags[side]),
                           filter_events=bool(filt) and kinds[side] != "path")
            p.connection_id = "LR"[side]
            p.connect({"key": "val"})
            p._vf_case = self
            p._vf_side = side
            self.prov.append(p)
        self.roots = tuple(self.cfg.get("roots", ROOTS))
        for side in (LOCAL, REMOTE):
            try:
                self.prov[side].mkdirs(self.roots[side])
            except Exception as e:
                raise EngineCrash("creating the sync root %s through Provider.mkdirs raised %r" % (self.roots[side], e))
        self.storage = DictStorage(storage_data)
        self.cs = None
        self.build_engine()

    # ------------------------------------------------------------------ engine lifecycle
    def build_engine(self):
        cloudsync.event.EventManager._provider_guard.clear()
        try:
            kw = {}
            if self.cfg.get("root_oids"):
                kw["root_oids"] = tuple(LoggedMock.info_path(self.prov[s], self.roots[s]).oid for s in (LOCAL, REMOTE))
            self.cs = self.cs_class(tuple(self.prov), roots=self.roots, storage=self.storage, sleep=None, **kw)
        except Exception as e:
            raise EngineCrash("constructing the sync engine raised %r" % (e,))
        self.cs.aging = self.cfg.get("aging", 0)
        return self.cs

    def drop_engine(self, graceful=True):
        cs = self.cs
        if cs is None:
            return
        try:
            if graceful:
                cs.done()
            else:
                shutil.rmtree(cs.smgr.tempdir, ignore_errors=True)
        except Exception:
            shutil.rmtree(cs.smgr.tempdir, ignore_errors=True)
        cloudsync.event.EventManager._provider_guard.clear()
        self.cs = None

    def close(self):
        self.drop_engine(graceful=False)

    # ------------------------------------------------------------------ engine call interception
    def _resolve_path(self, prov, name, a):
        """Path the call addresses, resolved BEFORE the call (oid -> current path)."""
        try:
            if name in ("create", "mkdir", "info_path", "exists_path"):
                return a[0], None
            oid = a[0]
            fo = prov._mock_fs.get(oid)
            src = fo.path if fo is not None else None
            if src is None and prov.oid_is_path and isinstance(oid, str):
                src = oid       # path-style: the id IS the path the call addresses, whether or not anything is there
            if name == "rename":
                return src, a[1]
            return src, None
        except Exception:
            return None, None

    def _engine_call(self, prov, name, orig, a, kw):
        path, dst = self._resolve_path(prov, name, a)
        rec = {"side": prov._vf_side, "name": name, "path": path, "dst": dst, "t": CLOCK.t,
               "step": self.step_no, "err": None, "n": len(self.calls)}
        if name in ("create", "upload") and len(a) > 1:
            try:
                pos = a[1].tell()
                rec["data"] = a[1].read()
                a[1].seek(pos)
            except Exception:
                rec["data"] = None
        self.calls.append(rec)
        plan = self.fault_plan
        if plan is not None:
            exc = plan(self, prov, rec, "before")
            if exc is not None:
                rec["err"] = type(exc).__name__
                rec["fault"] = "before"
                raise exc
        try:
            ret = orig(prov, *a, **kw)
        except BaseException as e:
            rec["err"] = type(e).__name__
            raise
        if plan is not None:
            exc = plan(self, prov, rec, "after")
            if exc is not None:
                rec["err"] = type(exc).__name__
                rec["fault"] = "after"
                raise exc
        return ret

    def _engine_events(self, prov, orig):
        rec = {"side": prov._vf_side, "name": "events", "path": None, "dst": None, "t": CLOCK.t,
               "step": self.step_no, "err": None, "n": len(self.calls)}
        self.calls.append(rec)
        plan = self.fault_plan
        if plan is not None:
            exc = plan(self, prov, rec, "before")
            if exc is not None:
                rec["err"] = type(exc).__name__
                rec["fault"] = "before"
                raise exc
        if self.event_mangler is not None:
            return self.event_mangler(self, prov, orig)
        return orig(prov)

    # ------------------------------------------------------------------ scheduler-visible actions
    def mgr(self, who):
        return {"EL": self.cs.emgrs[0], "ER": self.cs.emgrs[1], "S": self.cs.smgr}[who]

    def step(self, who):
        m = self.mgr(who)
        self.step_no += 1
        self.in_engine = True
        try:
            m.run(until=lambda: True, sleep=0)      # production loop body, exactly one do()
        except BaseException as e:                  # Runnable.run swallows everything; anything here is a finding
            if isinstance(e, CaseHang):             # the runner's wall-clock watchdog: not the engine's exception
                raise
            self.escaped.append((self.step_no, who, repr(e)))
            if self.cfg.get("reraise"):
                raise
        finally:
            self.in_engine = False
        if WATCHDOG["fired"]:       # (Runnable.run swallowed the watchdog's exception)
            raise CaseHang()
        self.drain_notes()

    def drain_notes(self):
        q = self.cs.nmgr._NotificationManager__queue
        while not q.empty():
            n = q.get_nowait()
            if n is not None:
                self.notes.append((self.step_no, n))

    def quiet(self):
        self.in_engine = True
        try:
            cs = self.cs
            # an event manager that has not yet validated its root / done its first intake has not looked at
            # anything: "nothing left to do" is only meaningful once every loop has really run once
            for em in cs.emgrs:
                if not getattr(em, "_root_validated", True) or getattr(em, "_first_do", False):
                    return False
            return not cs.smgr.busy and not cs.emgrs[0].busy and not cs.emgrs[1].busy
        finally:
            self.in_engine = False

    def settle(self, max_rounds=SETTLE_ROUNDS, order=("EL", "ER", "S")):
        """Round-robin until a full round ends quiet.  Returns #rounds or None (stall)."""
        for rounds in range(1, max_rounds + 1):
            for who in order:
                self.step(who)
            if self.quiet():
                return rounds
            CLOCK.sleep(0.05)
        return None

    # ------------------------------------------------------------------ user operations
    def abspath(self, side, path):
        if path.startswith("!"):
            return path[1:]
        if path in ("", "/"):
            return self.roots[side]
        return self.roots[side] + path

    def _info(self, side, path):
        info = self.prov[side].info_path(self.abspath(side, path))
        if info is None:
            raise InvalidTrace("no such object %s on side %s" % (path, side))
        return info

    def _release_under(self, side, info):
        prov = self.prov[side]
        if info.otype == FILE:
            fo = prov._mock_fs.get(info.oid)
            if fo is not None and fo.contents is not None:
                self.released.add(bytes(fo.contents))
        else:
            for fo in _objects(prov):
                if fo.exists and fo.type == fo.FILE and fo.path and prov.is_subpath(info.path, fo.path, strict=True):
                    self.released.add(bytes(fo.contents))

    def user(self, side, op, *args):
        """A user operation through the public Provider API, as the upstream tests do."""
        assert not self.in_engine
        prov = self.prov[side]
        try:
            if op == "mkdir":
                if prov.info_path(self.abspath(side, args[0])) is not None:
                    raise InvalidTrace("mkdir: exists")
                return prov.mkdir(self.abspath(side, args[0]))
            if op == "create":
                data = blob(args[1])
                self.written.append(data)
                return prov.create(self.abspath(side, args[0]), io.BytesIO(data))
            if op == "write":
                info = self._info(side, args[0])
                if info.otype != FILE:
                    raise InvalidTrace("write: not a file")
                data = blob(args[1])
                self._release_under(side, info)
                self.written.append(data)
                return prov.upload(info.oid, io.BytesIO(data))
            if op == "rename":
                info = self._info(side, args[0])
                dst = self.abspath(side, args[1])
                there = prov.info_path(dst)
                if there is not None and there.oid != info.oid:       # (same object: case-only rename)
                    raise InvalidTrace("rename: target exists")
                if prov.is_subpath(info.path, dst) and not (there is not None and there.oid == info.oid):
                    raise InvalidTrace("rename: into own subtree")
                return prov.rename(info.oid, dst)
            if op == "delete":
                info = self._info(side, args[0])
                self._release_under(side, info)
                return prov.delete(info.oid)
            if op == "rmtree":
                info = self._info(side, args[0])
                self._release_under(side, info)
                return prov.rmtree(info.oid)
        except (ex.CloudFileNotFoundError, ex.CloudFileExistsError, ex.CloudFileNameError) as e:
            raise InvalidTrace("%s %s: %r" % (op, args, e))
        raise HarnessError("unknown user op %r" % (op,))

    # ------------------------------------------------------------------ observation (direct peek, not through the API)
    def snap(self, side, root=None):
        """{relpath: None (folder) | bytes} of everything strictly inside the root of `side`."""
        prov = self.prov[side]
        root = self.roots[side] if root is None else root
        out = {}
        pre = root.rstrip("/") + "/"
        for fo in _objects(prov):
            if not fo.exists or not fo.path:
                continue
            if fo.path.startswith(pre):
                rel = fo.path[len(root.rstrip("/")):]
                if self.cfg.get("ci"):
                    rel = rel.lower()       # case-insensitive providers: trees are compared modulo case
                out[rel] = None if fo.type == fo.DIR else bytes(fo.contents)
        return out

    def snap_outside(self, side):
        """Everything on `side` that is NOT the root or inside it."""
        prov = self.prov[side]
        root = self.roots[side]
        pre = root + "/"
        out = {}
        for fo in _objects(prov):
            if not fo.exists or not fo.path:
                continue
            if fo.path == root or fo.path.startswith(pre):
                continue
            out[fo.path] = None if fo.type == fo.DIR else bytes(fo.contents)
        return out

    def mutations(self, since=0, side=None):
        return [c for c in self.calls[since:] if c["name"] in MUTATORS and (side is None or c["side"] == side)]

    # ------------------------------------------------------------------ generic action dispatcher
    def act(self, a):
        kind = a[0]
        if kind == "u":
            return self.user(a[1], a[2], *a[3:])
        if kind == "step":
            return self.step(a[1])
        if kind == "settle":
            return self.settle()
        if kind == "clock":
            CLOCK.sleep(a[1])
            return None
        raise HarnessError("unknown action %r" % (a,))
