"""C10  Transient provider faults: survive, report, retry, still converge.

main  : envelope histories (one- and two-sided, disjoint) + generated fault arms.  An arm
        ["fault", kind, phase, skip] makes the (skip+1)-th *eligible* engine-originated provider call from that
        point fail with `kind` either before it has any effect or after the effect happened.
stuck : one destination path is locked (CloudTemporaryError for ever) or one character is forbidden
        (CloudFileNameError) while other files are created around it; later the lock is lifted / the file renamed.
single: (thorough) bounded enumeration: for generated fault-free histories EVERY engine call index x kind x phase
        is faulted once (fault_enumeration).
"""
from .. import shims  # noqa: F401  (must precede any cloudsync import)
import sys

import cloudsync.exceptions as ex
from cloudsync import CloudSync
from cloudsync.notification import NotificationType as NT

from ..core import ok, violation, invalid
from ..gen import draw_cfg, gen_history, envelope_ok, FLAVOURS
from ..hist import HistoryRun, Stop
from ..engine import InvalidTrace, MUTATORS
from ..shims import CLOCK
from .. import oracles as O

ID = "C10"
LEVEL = "fault_enumeration"
RULE = ("main: Hypothesis-generated hazard-free histories (one-sided or two-sided disjoint) with 1-6 fault arms "
        "(kind in Temporary/Disconnected/Token/OutOfSpace x before/after-effect x skip count) placed anywhere; "
        "oracles: no exception escapes a service step; every injected temporary/disconnected/out-of-space fault is "
        "reported by a notification of the matching kind in the same step; after faults stop: quiet within 400 "
        "rounds, converged, no user content lost.  stuck: locked path / forbidden character scenarios (reported, "
        "others sync, the stuck file syncs once unlocked/renamed).  single (thorough): every engine call index of a "
        "generated fault-free run x kind x phase faulted once.  Non-trivial = >=1 fault actually fired on an engine "
        "call inside a sync step that had already mutated, or went on to mutate, a provider (main/single); a stuck "
        "file plus >=1 other file synced while it was stuck (stuck).  distinct = distinct trace digest.")
ASSUMPTIONS = [
    "mock providers; faults are injected by a wrapper in front of the provider API (before-effect or after-effect)",
    "envelope hazards PATH_REUSE, DIRMOVE_ISOLATED, DIRMOVE_TOMB, XSIDE as for C03/C04",
    "FAULT_IN_EVENT_APPLY: on a path-style side no fault is injected into provider calls made while an event is being applied (open finding KF-20)",
    "FAULT_IN_CHANGE_FILL: faults on calls issued from SyncState.change() are exempt from the reporting clause only (open finding KF-21)",
    "AFTER_FAULT_THEN_RENAME: an after-effect fault is not placed in a window in which a rename follows it; part single: histories whose fault window renames something are enumerated with before-effect faults only (open finding KF-27)",
    "AFTER_FAULT_THEN_RMTREE: no after-effect fault in a case that later deletes anything (a folder, emptied or as a tree, is what matters) (open finding KF-53: the duplicate such a fault may legitimately leave as '.conflicted' makes the folder undeletable for ever)",
    "DIRMOVE_ISOLATED: the id/id exception covers new files only (no mkdir inside a folder renamed in the same window): with a fault in between the other side keeps a stale copy of the folder (KF-07d)",
    "DIRMOVE_TOMB counts deletions of BOTH sides (a delete the engine carried out under a fault may leave a tombstone on the side it was applied to)",
    "CloudSync.authenticate is overridden (documented override point) to reconnect with the stored credentials",
    "a final tree different from the fault-free expectation is allowed (duplicates after an 'effect happened, caller saw failure' fault): the statement asks for convergence and no loss",
]

KINDS = {"temp": ex.CloudTemporaryError, "disc": ex.CloudDisconnectedError, "token": ex.CloudTokenError,
         "space": ex.CloudOutOfSpaceError}
WANT_NOTE = {"temp": NT.TEMPORARY_ERROR, "disc": NT.DISCONNECTED_ERROR, "space": NT.OUT_OF_SPACE_ERROR}
HAZARDS = ("FAULT_IN_EVENT_APPLY", "FAULT_IN_CHANGE_FILL")


class FaultCS(CloudSync):
    def authenticate(self, side):
        p = self.providers[side]
        p.connect(p._creds)


def _in_frames(names):
    f = sys._getframe(2)
    while f is not None:
        if f.f_code.co_name in names and "cloudsync" in f.f_code.co_filename:
            return f.f_code.co_name
        f = f.f_back
    return None


class Plan:
    def __init__(self, run):
        self.run = run
        self.arms = []          # [kind, phase, skip]
        self.fired = []         # dict(rec, kind, phase, step, context)
        self.enabled = True
        self.skipped_hazard = 0
        self.seen_calls = 0         # eligible engine calls observed while enabled (phase 'before' and 'after' both count)

    def arm(self, kind, phase, skip, only=None):
        self.arms.append([kind, phase, skip, only])

    def __call__(self, case, prov, rec, phase):
        if not self.enabled or not self.arms or getattr(case, "in_quiet", False):
            return None
        ctx = _in_frames(("change", "_process_event", "_update_kids"))
        hz = self.run.hazards
        self.seen_calls += 1
        for arm in self.arms:
            kind, aphase, skip, only = arm
            if aphase != phase:
                continue
            if only == "mut" and rec["name"] not in MUTATORS:
                continue
            if only == "xfer" and rec["name"] not in ("create", "upload", "download"):
                continue
            if kind == "space" and rec["name"] not in ("create", "upload"):
                continue
            if rec["name"] == "events" and phase == "after":
                continue
            if "FAULT_IN_EVENT_APPLY" in hz and ctx in ("_process_event", "_update_kids") and prov.oid_is_path and rec["name"] != "events":
                self.skipped_hazard += 1
                continue
            if skip > 0:
                arm[2] -= 1
                continue
            self.arms.remove(arm)
            exc = KINDS[kind]("injected %s fault %s %s" % (kind, phase, rec["name"]))
            if kind in ("disc", "token"):
                prov.disconnect()
            self.fired.append({"n": rec["n"], "kind": kind, "phase": phase, "step": case.step_no, "name": rec["name"],
                               "side": rec["side"], "ctx": ctx, "who": self.run.cur_who})
            return exc
        return None


def budget(tier):
    q = tier == "quick"
    plan = [{"workers": 16, "examples": 200 if q else 6000},
            {"part": "stuck", "workers": 16, "examples": 40 if q else 1500},
            {"part": "single", "workers": 16, "examples": 1 if q else 40}]
    return plan


def _winit(world):
    world.tomb_both = True
    # a fault delays and re-orders the engine's own work: making a FOLDER inside a folder renamed in the same window is
    # then the KF-07 / KF-34 family even when both sides are id-style (witness KF-07d); new files inside it are fine
    world.strict_dirmove = True


def gen(d, tier):
    cfg = draw_cfg(d)
    two = d.bool()
    if not two:
        cfg["origin"] = d.int(0, 1)
    n_ops = (3, 8) if tier == "quick" else (3, 14)
    sides = (0, 1) if two else (cfg["origin"],)

    def fault_then_edit(d, world, acts):
        """edit a file, let a before-effect fault hit one of the engine's next mutating / transfer calls, let the
        engine work a little, edit the SAME file again before the retry, settle (what the first attempt left behind --
        temp files, half-filled entries -- must not leak into the retry)"""
        s_ = d.choice(sides)
        files = [c for c in world.allowed(s_, "write")]
        if not files:
            return
        c = d.choice(files)
        c1 = world.new_content()
        acts.append(["u", s_, "write", c[1], c1])
        world.apply(s_, "write", c[1], c1)
        acts.append(["fault", d.choice(("temp", "disc", "space")), "before", d.int(0, 2), d.choice(("mut", "xfer"))])
        for _ in range(d.int(2, 6)):
            acts.append(["step", d.choice(("EL" if s_ == 0 else "ER", "S", "S")), 0.02])
            world.note_step(acts[-1][1])
        if world.hazard(s_, "write", c[1], "y") is None:
            c2 = world.new_content()
            acts.append(["u", s_, "write", c[1], c2])
            world.apply(s_, "write", c[1], c2)
        acts.append(["settle"])
        world.settle()
    acts, world = gen_history(d, cfg, sides=sides, n_ops=n_ops, with_base=True,
                              world_init=_winit, w_extra=1, extra=fault_then_edit)
    acts.append(["settle"])      # the last-but-one settle still runs under faults; only the very last one is fault-free
    # insert fault arms after the base settle
    first = next(i for i, a in enumerate(acts) if a[0] == "settle")
    nf = d.int(1, 6)
    for _ in range(nf):
        pos = d.int(first + 1, len(acts) - 1)
        kind = d.weighted((("temp", 4), ("disc", 3), ("token", 2), ("space", 2)))
        only = d.choice((None, "mut", "xfer"))
        phase = d.choice(("before", "after"))
        if phase == "after" and any(a[0] == "u" and a[2] in ("rmtree", "delete") for a in acts[pos:]):
            # hazard AFTER_FAULT_THEN_RMTREE (open finding KF-53): an after-effect fault may leave a '.conflicted' copy
            # on one side; a folder holding one can never be removed by the engine
            phase = "before"
            world.excluded["AFTER_FAULT_THEN_RMTREE"] += 1
        if phase == "after":
            # hazard AFTER_FAULT_THEN_RENAME (open finding KF-27): an after-effect fault is not placed in a window
            # that later renames something; arms expire at the next quiet point (see Run.at_quiet)
            for a in acts[pos:]:
                if a[0] == "settle":
                    break
                if a[0] == "u" and a[2] == "rename":
                    phase = "before"
                    world.excluded["AFTER_FAULT_THEN_RENAME"] += 1
                    break
        acts.insert(pos, ["fault", kind, phase, d.int(0, 12) if only is None else d.int(0, 3), only])
    return {"cfg": cfg, "acts": acts, "meta": {"excluded": dict(world.excluded)}}


def in_domain(trace):
    acts = [a for a in trace["acts"] if a[0] != "fault"]
    sides = (0, 1) if "origin" not in trace["cfg"] else (trace["cfg"]["origin"],)
    return envelope_ok(dict(trace, acts=acts), sides=sides, world_init=_winit)


class Run(HistoryRun):
    def __init__(self, trace, hazards=None):
        super().__init__(trace, case_kw={"cs_class": FaultCS})
        import os
        self.hazards = HAZARDS if hazards is None else hazards
        if "fhazards" in trace["cfg"]:                          # known-finding witnesses run without the fence
            self.hazards = tuple(trace["cfg"]["fhazards"])
        if os.environ.get("VERIF_FHAZARDS") is not None:       # triage only
            self.hazards = tuple(h for h in os.environ["VERIF_FHAZARDS"].split(",") if h)
        self.plan = Plan(self)
        self.cur_who = None
        self._mut_before = 0
        self.step_mutated = {}      # step_no -> number of provider mutations in that step
        if self.case is not None:
            self.case.fault_plan = self.plan
            case = self.case
            orig_quiet = case.quiet

            def quiet():
                case.in_quiet = True
                try:
                    return orig_quiet()
                except ex.CloudException:
                    return False            # application-thread `busy` probe failed (disconnected): not quiet
                finally:
                    case.in_quiet = False
            case.quiet = quiet

    def special(self, act):
        if act[0] != "fault":
            raise InvalidTrace("unknown action %r" % (act,))
        self.plan.arm(act[1], act[2], act[3], act[4] if len(act) > 4 else None)

    def before_step(self, who):
        self.cur_who = who
        self._mut_before = len(self.case.mutations())

    def after_step(self, who):
        self.step_mutated[self.case.step_no] = len(self.case.mutations()) - self._mut_before
        e = O.escaped(self.case)
        if e:
            raise Stop(violation("loop_keeps_running", e))
        # reporting clause, attributed per step
        notes = [n.ntype for s, n in self.case.notes if s == self.case.step_no]
        for f in self.plan.fired:
            if f["step"] != self.case.step_no or f.get("checked"):
                continue
            f["checked"] = True
            want = WANT_NOTE.get(f["kind"])
            if want is None:
                continue
            if "FAULT_IN_CHANGE_FILL" in self.hazards and f["ctx"] == "change":
                f["exempt"] = True
                continue
            if want not in notes:
                raise Stop(violation("fault_reported", "injected %s fault (%s %s on side %d, step %s, ctx=%s) was not reported by a %s notification in that step; notifications: %s" % (
                    f["kind"], f["phase"], f["name"], f["side"], who, f["ctx"], want.value, [n.value for n in notes])))

    def do_settle(self, final=False):
        if final:
            # faults stop: drop pending arms, make sure both providers can be reconnected by the engine itself
            self.plan.arms = []
            self.plan.enabled = False
        return super().do_settle(final)

    def at_quiet(self, rounds, final):
        self.plan.arms = []         # arms expire at a quiet point: a fault belongs to the window it was placed in
        if not final:
            return
        e = O.converged(self.case)
        if e:
            raise Stop(violation("converged_after_faults", e))
        e = O.no_loss(self.case)
        if e:
            raise Stop(violation("no_loss", e))

    def finish(self):
        cfg = self.trace["cfg"]
        labs = ["flavour:%s/%s" % (cfg["L"], cfg["R"]), "two_sided" if "origin" not in cfg else "one_sided"]
        nt = False
        for f in self.plan.fired:
            labs.append("fired:%s:%s" % (f["kind"], f["phase"]))
            if f["who"] == "S" and self.step_mutated.get(f["step"], 0) + (1 if f["name"] in MUTATORS else 0) > 0:
                nt = True
            if f.get("exempt"):
                labs.append("exempt:change_fill")
        if self.plan.skipped_hazard:
            labs.append("hazard_skipped:event_apply")
        if not self.plan.fired:
            labs.append("no_fault_fired")
        return ok(nontrivial=nt, labels=sorted(set(labs)))

    def do_user(self, act):
        # users operate on the real account: their calls are never faulted, but a disconnected mock refuses them,
        # so reconnect the way a user's own client would be connected independently of the engine's session
        p = self.case.prov[act[1]]
        was = p.connected
        if not was:
            p.connect(p._creds)
        try:
            super().do_user(act)
        finally:
            if not was:
                p.disconnect()


def run(trace):
    return Run(trace).execute()


# ----------------------------------------------------------------------------- stuck part
# ----------------------------------------------------------------------------- single-fault enumeration
SINGLE_KINDS = (("temp", "before"), ("temp", "after"), ("disc", "before"), ("disc", "after"), ("token", "before"),
                ("space", "before"), ("space", "after"))


def gen_single(d, tier):
    cfg = draw_cfg(d)
    two = d.bool()
    if not two:
        cfg["origin"] = d.int(0, 1)
    acts, world = gen_history(d, cfg, sides=(0, 1) if two else (cfg["origin"],), n_ops=(2, 5), with_base=True,
                              w_settle=0, world_init=_winit)
    acts.append(["settle"])
    return {"cfg": cfg, "acts": acts, "meta": {"excluded": dict(world.excluded)}}


def _with_fault(trace, n, kind, phase):
    """Place one fault arm right after the base settle that fires on the n-th eligible engine call."""
    acts = list(trace["acts"])
    first = next(i for i, a in enumerate(acts) if a[0] == "settle")
    acts.insert(first + 1, ["fault", kind, phase, n, None])
    return dict(trace, acts=acts)


def run_single(trace):
    if "single" in trace:
        n, kind, phase = trace["single"]
        return Run(_with_fault(trace, n, kind, phase)).execute()
    # dry run: how many eligible calls does the fault window contain?
    probe = Run(_with_fault(trace, 10 ** 9, "temp", "before"))
    out = probe.execute()
    if out["status"] != "ok":
        return out
    total = probe.plan.seen_calls // 2 + 1
    fired = nontriv = 0
    # hazard AFTER_FAULT_THEN_RENAME (open finding KF-27): the fault may land anywhere in the window, so a history
    # whose fault window renames something is only enumerated with before-effect faults
    first = next(i for i, a in enumerate(trace["acts"]) if a[0] == "settle")
    renames = any(a[0] == "u" and a[2] in ("rename", "rmtree", "delete") for a in trace["acts"][first:])
    kinds = [kp for kp in SINGLE_KINDS if not (renames and kp[1] == "after")]
    for n in range(total):
        for kind, phase in kinds:
            r = Run(_with_fault(trace, n, kind, phase))
            o = r.execute()
            if r.plan.fired:
                fired += 1
                nontriv += bool(o.get("nontrivial"))
            if o["status"] == "violation":
                trace["single"] = [n, kind, phase]
                o["detail"] = "[single fault #%d %s %s] %s" % (n, kind, phase, o["detail"])
                return o
    return ok(nontrivial=nontriv > 0, labels=["single:histories"],
              counters={"single:fault_runs": total * len(kinds), "single:after_effect_skipped_for_rename": int(renames), "single:faults_fired": fired,
                        "single:nontrivial_fault_runs": nontriv})


def gen_stuck(d, tier):
    L, R = d.choice(FLAVOURS)
    origin = d.int(0, 1)
    mode = d.choice(("locked", "forbidden"))
    cfg = {"L": L, "R": R, "salt": d.int(0, 7), "origin": origin, "mode": mode}
    names = ["a", "b", "d", "e"]
    stuck = "/q" if mode == "forbidden" else "/" + d.choice(names)
    others = [n for n in names if "/" + n != stuck]
    acts = []
    n_other = d.int(1, 3)
    seq = [["u", origin, "create", stuck, "s1"]]
    for i in range(n_other):
        seq.append(["u", origin, "create", "/" + others[i], "o%d" % i])
    # shuffle by drawing positions
    order = []
    while seq:
        order.append(seq.pop(d.int(0, len(seq) - 1)))
    for a in order:
        acts.append(a)
        for _ in range(d.int(0, 2)):
            acts.append(["step", d.choice(("EL", "ER", "S"))])
    acts.append(["rounds", d.int(30, 60)])
    acts.append(["check_others"])
    if mode == "locked":
        acts.append(["unlock"])
    else:
        acts.append(["u", origin, "rename", stuck, "/" + d.choice(["x", "y"])])
    acts.append(["settle"])
    cfg["stuck"] = stuck
    return {"cfg": cfg, "acts": acts}


class StuckRun(HistoryRun):
    def __init__(self, trace):
        super().__init__(trace, case_kw={"cs_class": FaultCS})
        cfg = trace["cfg"]
        self.dest = 1 - cfg["origin"]
        self.stuck = cfg["stuck"]
        self.others_ok = False
        if self.case is not None:
            p = self.case.prov[self.dest]
            if cfg["mode"] == "locked":
                p._locked_for_test.add(self.case.abspath(self.dest, self.stuck))
            else:
                p._forbidden_chars = ["q"]      # a character that occurs in neither root path

    def after_step(self, who):
        e = O.escaped(self.case)
        if e:
            raise Stop(violation("loop_keeps_running", e))

    def special(self, act):
        case = self.case
        if act[0] == "rounds":
            for _ in range(act[1]):
                for who in ("EL", "ER", "S"):
                    self.do_step(who)
                CLOCK.sleep(0.05)
        elif act[0] == "check_others":
            want = O.tree_bytes(self.exp) if self.exp is not None else None
            if want is None:
                raise InvalidTrace("no expectation")
            got = case.snap(self.dest)
            for p, v in want.items():
                if p == self.stuck:
                    continue
                if got.get(p, "missing") != v:
                    raise Stop(violation("stuck_file_blocks_others", "while %s is %s, %s has not been synchronised (dest has %r)" % (
                        self.stuck, self.trace["cfg"]["mode"], p, got.get(p, "missing"))))
            if self.stuck in got:
                raise InvalidTrace("stuck file was not stuck")
            kinds = [n.ntype for _, n in case.notes]
            want_note = NT.TEMPORARY_ERROR if self.trace["cfg"]["mode"] == "locked" else NT.FILE_NAME_ERROR
            if want_note not in kinds:
                raise Stop(violation("stuck_file_reported", "no %s notification for the %s file %s; got %s" % (
                    want_note.value, self.trace["cfg"]["mode"], self.stuck, sorted({k.value for k in kinds}))))
            self.others_ok = len(want) > 1
        elif act[0] == "unlock":
            case.prov[self.dest]._locked_for_test.clear()
        else:
            raise InvalidTrace("unknown action %r" % (act,))

    def at_quiet(self, rounds, final):
        if self.exp is None:
            return
        e = O.equals_expected(self.case, self.exp)
        if e:
            raise Stop(violation("synced_once_it_stops_failing", e))

    def finish(self):
        cfg = self.trace["cfg"]
        return ok(nontrivial=self.others_ok, labels=["stuck:" + cfg["mode"], "flavour:%s/%s" % (cfg["L"], cfg["R"])])


def run_stuck(trace):
    return StuckRun(trace).execute()


PARTS = {"stuck": (gen_stuck, run_stuck), "single": (gen_single, run_single)}
