"""Runner: replay tier -> generated campaign on a process pool -> shrink -> evidence -> exit code.

usage:  python -m vf.run <ID> <quick|thorough>
        python -m vf.run <ID> --replay <file>

exit 0: property held on everything explored (KNOWN-FINDING lines may be printed)
exit 1: a line "VIOLATION property=<id> replay=<path>" was printed
exit 2: harness error (never a VIOLATION)
"""
import os
import sys
import json
import time
import shutil
import hashlib
import tempfile
import importlib
import traceback
import multiprocessing
from collections import Counter

VERIF = os.path.dirname(os.path.dirname(os.path.abspath(__file__)))
KNOWN = os.path.join(VERIF, "known_findings.json")


from .core import jdump, digest, load_prop, ok, violation, invalid  # noqa: F401


# --------------------------------------------------------------------------- worker
def _worker(args):
    pid, tier, wseed, n_examples, part = args
    try:
        return _worker_body(pid, tier, wseed, n_examples, part)
    except BaseException:
        return {"error": traceback.format_exc(), "part": part}


def _worker_body(pid, tier, wseed, n_examples, part):
    from . import shims
    shims.SCRATCH = None
    shims.scratch()
    import hypothesis
    from hypothesis import given, settings, strategies as st, HealthCheck, Phase
    from .gen import D
    prop = load_prop(pid)
    gen = getattr(prop, "PARTS", {}).get(part, (None, None))[0] if part else prop.gen
    run = getattr(prop, "PARTS", {}).get(part, (None, None))[1] if part else prop.run
    res = {"part": part, "evaluations": 0, "digests": set(), "samples": [], "labels": Counter(), "excluded": Counter(),
           "violations": [], "invalid": 0, "first_invalid": None, "error": None, "seed": wseed}
    max_viol = 8

    @hypothesis.seed(wseed)
    @settings(max_examples=n_examples, database=None, deadline=None, derandomize=False,
              report_multiple_bugs=False, phases=[Phase.generate],
              suppress_health_check=[HealthCheck.too_slow, HealthCheck.data_too_large, HealthCheck.large_base_example])
    @given(st.data())
    def campaign(data):
        trace = gen(D(data), tier)
        if len(res["violations"]) >= max_viol or res.get("hangs", 0) >= 2:
            return          # enough counter-examples collected: draw (keeps generation consistent) but do not run
        out = _run_guarded(run, trace, prop, res)
        if out is None:
            return
        res["evaluations"] += 1
        meta = trace.get("meta", {}) if isinstance(trace, dict) else {}
        for k, v in (meta.get("excluded") or {}).items():
            res["excluded"][k] += v
        for lab in out.get("labels", []):
            res["labels"][lab] += 1
        cfg = trace.get("cfg") if isinstance(trace, dict) else None
        if isinstance(cfg, dict):
            for key in ("filter", "root_oids", "storage", "ci"):
                if cfg.get(key):
                    res["labels"]["cfg:%s=%s" % (key, cfg[key] if not isinstance(cfg[key], bool) else "on")] += 1
        for k, v in (out.get("counters") or {}).items():
            res["labels"][k] += v
        if out["status"] == "invalid":
            res["invalid"] += 1
            if res["first_invalid"] is None:
                res["first_invalid"] = (trace, out)
            return
        if out.get("nontrivial"):
            dg = digest(trace)
            if dg not in res["digests"]:
                res["digests"].add(dg)
                if len(res["samples"]) < 2:
                    res["samples"].append(trace)
        if out["status"] == "violation":
            res["violations"].append((trace, out))

    try:
        campaign()
    finally:
        shims.cleanup_scratch()
    return res


from .core import CaseHang as _CaseHang, WATCHDOG  # noqa: E402


CASE_WALL_LIMIT = int(os.environ.get("VERIF_CASE_LIMIT", "240"))       # seconds (env override: harness self-test only); a case normally takes milliseconds (the slowest, filesystem polls, well under 60 s)


def _run_guarded(run, trace, prop, res):
    """Runs one case under a wall-clock watchdog so that code which loops for ever inside ONE engine call cannot block
    the check.  A case that hits the limit is abandoned and counted (`hangs`); it is a violation only where the
    property itself promises termination in a bounded number of steps (module attribute HANG_IS_VIOLATION), otherwise
    it is inconclusive."""
    import signal

    def on_alarm(signum, frame):
        # Runnable.run() swallows BaseException: the flag lets the harness re-raise between two engine calls, and the
        # timer keeps firing so that the next never-returning call is interrupted as well.  The exception is only
        # thrown into library code (a frame of the cloudsync package); harness code looks at the flag instead.
        WATCHDOG["fired"] = True
        f = frame
        depth = 0
        while f is not None and depth < 12:
            fn = f.f_code.co_filename.replace("\\", "/")
            if "/cloudsync/" in fn and "/verif/" not in fn:
                raise _CaseHang()
            if "/verif/vf/" in fn:
                return
            f = f.f_back
            depth += 1
    WATCHDOG["fired"] = False
    try:
        old = signal.signal(signal.SIGALRM, on_alarm)
        signal.setitimer(signal.ITIMER_REAL, CASE_WALL_LIMIT, 0.5)
    except (ValueError, AttributeError):        # not the main thread / no SIGALRM: run unguarded
        return run(trace)
    try:
        out = run(trace)
        if WATCHDOG["fired"]:
            raise _CaseHang()
        return out
    except Exception as e:
        # an exception that the property module did not expect and that was raised INSIDE the library (innermost
        # frame in the cloudsync package: AttributeError, TypeError, KeyError ... out of library code the harness
        # called directly) is a finding about the library, not a harness failure
        tb = traceback.extract_tb(e.__traceback__)
        if tb and "/cloudsync/" in tb[-1].filename.replace("\\", "/") and "/verif/" not in tb[-1].filename:
            return violation("library_exception", "%s raised by library code at %s:%d (%s), called from the harness at %s" % (
                repr(e)[:200], os.path.basename(tb[-1].filename), tb[-1].lineno, tb[-1].name,
                next(("%s:%d" % (os.path.basename(f.filename), f.lineno) for f in reversed(tb) if "/verif/" in f.filename), "?")))
        raise
    except _CaseHang:
        res["hangs"] = res.get("hangs", 0) + 1
        res["labels"]["hang:case_abandoned_after_%ds" % CASE_WALL_LIMIT] += 1
        if getattr(prop, "HANG_IS_VIOLATION", False):
            res["violations"].append((trace, violation("bounded_steps", "a single case did not return within %d s of wall clock (an engine call that never returns)" % CASE_WALL_LIMIT)))
        return None
    finally:
        signal.setitimer(signal.ITIMER_REAL, 0)
        signal.signal(signal.SIGALRM, old)
        WATCHDOG["fired"] = False


# --------------------------------------------------------------------------- shrinking
def ddmin(trace, run, clause, key="acts", max_runs=800, in_domain=None):
    """Trace-level delta debugging over trace[key] keeping `violation` of the same clause
    (and, when `in_domain` is given, membership of the generated domain)."""
    runs = [0]

    def bad(acts):
        if runs[0] >= max_runs:
            return False
        t = dict(trace)
        t[key] = acts
        if in_domain is not None and not in_domain(t):
            return False
        runs[0] += 1
        try:
            out = run(t)
        except Exception:
            return False
        return out["status"] == "violation" and out["clause"] == clause

    acts = list(trace[key])
    n = 2
    while len(acts) >= 2 and runs[0] < max_runs:
        chunk = max(1, len(acts) // n)
        reduced = False
        i = 0
        while i < len(acts):
            cand = acts[:i] + acts[i + chunk:]
            if cand and bad(cand):
                acts = cand
                n = max(n - 1, 2)
                reduced = True
            else:
                i += chunk
        if not reduced:
            if chunk == 1:
                break
            n = min(n * 2, len(acts))
    t = dict(trace)
    t[key] = acts
    return t, runs[0]


# --------------------------------------------------------------------------- replay files / known findings
def load_known():
    if not os.path.exists(KNOWN):
        return []
    with open(KNOWN) as f:
        return json.load(f)["findings"]


def undump(o):
    if isinstance(o, dict):
        if set(o) == {"__bytes__"}:
            return bytes.fromhex(o["__bytes__"])
        return {k: undump(v) for k, v in o.items()}
    if isinstance(o, list):
        return [undump(v) for v in o]
    return o


def run_replay_file(path, default_pid):
    with open(path) as f:
        doc = undump(json.load(f))
    pid = doc.get("prop", default_pid)
    prop = load_prop(pid)
    part = doc.get("part")
    run = prop.PARTS[part][1] if part and part in getattr(prop, "PARTS", {}) else prop.run
    res = {"labels": Counter(), "violations": []}
    out = _run_guarded(run, doc["trace"], prop, res)
    if out is None:         # the watchdog fired: the replay did not return
        if res["violations"]:
            out = res["violations"][0][1]
        else:
            out = ok(labels=["hang:replay_abandoned"])
            out["detail"] = "replay did not return within %d s (inconclusive)" % CASE_WALL_LIMIT
    return doc, out


def write_found(pid, part, trace, out, note=""):
    d = os.path.join(VERIF, "replays", "found")
    os.makedirs(d, exist_ok=True)
    path = os.path.join(d, "%s-%s.json" % (pid, digest(trace)))
    with open(path, "w") as f:
        f.write(json.dumps({"prop": pid, "part": part, "clause": out["clause"], "detail": out["detail"], "note": note,
                            "trace": json.loads(jdump(trace))}, indent=1, sort_keys=True))
    return os.path.relpath(path, VERIF)


# --------------------------------------------------------------------------- main
def main(argv):
    if len(argv) < 3:
        print(__doc__)
        return 2
    pid = argv[1].upper()
    t0 = time.time()
    from . import shims  # noqa: F401  (asserts cloudsync comes from /repo)
    prop = load_prop(pid)

    if argv[2] == "--replay":
        doc, out = run_replay_file(argv[3], pid)
        print(json.dumps({"status": out["status"], "clause": out["clause"], "detail": out["detail"]}, indent=1))
        if out["status"] == "violation":
            print("VIOLATION property=%s replay=%s" % (pid, argv[3]))
            return 1
        return 0

    tier = argv[2]
    if tier not in ("quick", "thorough"):
        print(__doc__)
        return 2
    seed = int(os.environ.get("VERIF_SEED", "1") or "1")
    os.environ["VERIF_TIER"] = tier          # property modules read the tier from here when run() needs it
    run_scratch = tempfile.mkdtemp(prefix="vf-run-")
    os.environ["VERIF_SCRATCH"] = run_scratch
    try:
        return _main_campaign(prop, pid, tier, seed, t0)
    finally:
        shims.cleanup_scratch()
        shutil.rmtree(run_scratch, ignore_errors=True)


def _main_campaign(prop, pid, tier, seed, t0):
    violations = []     # (replay path, clause)
    known_lines = []
    harness_errors = []
    replayed = 0

    # ---- 1. replay tier: known findings, regressions
    for kf in load_known():
        if pid not in kf["property"]:
            continue
        wpath = os.path.join(VERIF, kf["witness"])
        try:
            doc, out = run_replay_file(wpath, pid)
        except Exception:
            harness_errors.append("replay of %s failed:\n%s" % (kf["witness"], traceback.format_exc()))
            continue
        replayed += 1
        if kf["status"] == "open":
            if out["status"] == "violation":
                known_lines.append("KNOWN-FINDING: property=%s %s %s" % (pid, kf["id"], kf["what_fails"]))
            else:
                print("note: known finding %s no longer reproduces (%s)" % (kf["id"], out["status"]))
        else:
            if out["status"] == "violation":
                violations.append((kf["witness"], out["clause"]))
            elif out["status"] == "invalid":
                harness_errors.append("fixed-finding witness %s is invalid: %s" % (kf["witness"], out["detail"]))
    rdir = os.path.join(VERIF, "replays", "regress", pid)
    if os.path.isdir(rdir):
        for fn in sorted(os.listdir(rdir)):
            if not fn.endswith(".json"):
                continue
            try:
                doc, out = run_replay_file(os.path.join(rdir, fn), pid)
            except Exception:
                harness_errors.append("replay of %s failed:\n%s" % (fn, traceback.format_exc()))
                continue
            replayed += 1
            if out["status"] == "violation":
                violations.append((os.path.join("replays", "regress", pid, fn), out["clause"]))
            elif out["status"] == "invalid":
                harness_errors.append("regression trace %s is invalid: %s" % (fn, out["detail"]))

    # ---- 2. generated campaign(s)
    plan = prop.budget(tier)          # list of dict(part=None|name, workers=, examples=)  or a single dict
    if isinstance(plan, dict):
        plan = [plan]
    jobs = []
    for pi, p in enumerate(plan):
        for w in range(p.get("workers", 16)):
            jobs.append((pid, tier, seed * 1000 + pi * 100 + w, p["examples"], p.get("part")))
    ncpu = min(16, os.cpu_count() or 1)
    results = []
    if jobs:
        if len(jobs) == 1 or os.environ.get("VERIF_SERIAL"):
            results = [_worker(j) for j in jobs]
        else:
            with multiprocessing.get_context("fork").Pool(ncpu) as pool:
                results = pool.map(_worker, jobs, chunksize=1)

    # optional non-Hypothesis parts (bounded-exhaustive enumerations etc.)
    extra = []
    if hasattr(prop, "extra_parts"):
        try:
            extra = prop.extra_parts(tier, seed)      # list of result dicts in the worker format
        except Exception:
            harness_errors.append("extra_parts failed:\n" + traceback.format_exc())
    results = list(results) + list(extra)

    evaluations = 0
    digests = set()
    samples = []
    labels = Counter()
    excluded = Counter()
    invalid_n = 0
    per_part = {}
    exhaustive = None
    raw_violations = []
    for r in results:
        if r.get("error"):
            harness_errors.append("worker error (part %s):\n%s" % (r.get("part"), r["error"]))
            continue
        evaluations += r["evaluations"]
        digests |= set(r["digests"]) if not isinstance(r["digests"], int) else set()
        pp = per_part.setdefault(r.get("part") or "main", {"evaluations": 0, "nontrivial": 0})
        pp["evaluations"] += r["evaluations"]
        pp["nontrivial"] += len(r["digests"]) if not isinstance(r["digests"], int) else r["digests"]
        if len(samples) < 5:
            samples.extend(r["samples"][:2])
        labels.update(r["labels"])
        excluded.update(r["excluded"])
        invalid_n += r.get("invalid", 0)
        if r.get("first_invalid") and r["invalid"]:
            tr, out = r["first_invalid"]
            path = write_found(pid, r.get("part"), tr, out, note="generator produced a trace the harness judged invalid")
            harness_errors.append("generated trace invalid (%s): %s  [%s]" % (r.get("part"), out["detail"], path))
        if "exhaustive" in r:
            exhaustive = r["exhaustive"] if exhaustive is None else (exhaustive and r["exhaustive"])
        for tr, out in r["violations"]:
            raw_violations.append((r.get("part"), tr, out))
    extra_nontrivial = sum(r["digests"] for r in results if not r.get("error") and isinstance(r.get("digests"), int))

    # ---- 3. shrink & report (one replay file per distinct clause, at most 4)
    seen_clause = set()
    for part, tr, out in raw_violations:
        if part not in getattr(prop, "PARTS", {}):
            part = None         # results of extra_parts() are judged by the main run()
        key = (part, out["clause"])
        if key in seen_clause or len(seen_clause) >= 4:
            continue
        seen_clause.add(key)
        run = prop.PARTS[part][1] if part else prop.run
        note = ""
        if out["clause"] == "bounded_steps":
            note = "not shrunk: replaying this trace may not return"
        elif isinstance(tr, dict) and isinstance(tr.get("acts"), list):
            try:
                tr2, nruns = ddmin(tr, run, out["clause"], in_domain=getattr(prop, "in_domain", None))
                out2 = run(tr2)
                if out2["status"] == "violation" and out2["clause"] == out["clause"]:
                    tr, out, note = tr2, out2, "shrunk by trace-level ddmin in %d replays" % nruns
            except Exception:
                note = "ddmin failed: " + traceback.format_exc(limit=1)
        path = write_found(pid, part, tr, out, note)
        violations.append((path, out["clause"]))

    # ---- 4. evidence
    wall = time.time() - t0
    cov = {
        "evaluations": evaluations + replayed,
        "distinct_nontrivial": len(digests) + extra_nontrivial,
        "rule": prop.RULE,
        "samples": json.loads(jdump(samples[:5])),
        "generated_cases": evaluations,
        "replayed_witnesses": replayed,
        "labels": dict(sorted(labels.items())),
        "excluded_by_hazard": dict(sorted(excluded.items())),
        "generator_invalid": invalid_n,
        "per_part": per_part,
        "known_findings_reported": [l.split(" ", 3)[2] for l in known_lines],
        "raw_violations": len(raw_violations),
    }
    if exhaustive is not None:
        cov["exhaustive"] = bool(exhaustive)
    ev = {
        "property_id": pid, "tier": tier, "seed": seed, "level": prop.LEVEL, "coverage": cov,
        "assumptions": list(prop.ASSUMPTIONS), "wall_s": round(wall, 2), "violations": len(violations),
    }
    os.makedirs(os.path.join(VERIF, "evidence"), exist_ok=True)
    with open(os.path.join(VERIF, "evidence", pid + ".json"), "w") as f:
        json.dump(ev, f, indent=1, sort_keys=True)
        f.write("\n")

    for line in known_lines:
        print(line)
    nh = sum(v for k, v in labels.items() if k.startswith("hang:"))
    if nh:
        print("INCONCLUSIVE: %d case(s) abandoned by the wall-clock watchdog (%d s): a library call did not return" % (nh, CASE_WALL_LIMIT))
    print("%s %s seed=%d: %d generated + %d replayed, %d distinct non-trivial, %d violation(s), %.1fs"
          % (pid, tier, seed, evaluations, replayed, cov["distinct_nontrivial"], len(violations), wall))
    if harness_errors:
        for h in harness_errors:
            sys.stderr.write("HARNESS-ERROR: %s\n" % h)
    for path, clause in violations:
        print("violated clause: %s" % clause)
        print("VIOLATION property=%s replay=%s" % (pid, path))
    if violations:
        return 1
    if harness_errors:
        return 2
    return 0


if __name__ == "__main__":
    try:
        rc = main(sys.argv)
    except SystemExit:
        raise
    except BaseException:
        traceback.print_exc()
        sys.stderr.write("HARNESS-ERROR: runner crashed\n")
        rc = 2
    sys.exit(rc)
