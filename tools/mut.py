"""Sensitivity aid: apply a textual mutation to /repo (must change exactly one spot), run checks, revert.
usage: mut.py <relpath> <old> <new> <ID>[,<ID>...] [tier]   (old/new are python-escaped strings)"""
import sys, subprocess, os
rel, old, new, ids = sys.argv[1:5]
tier = sys.argv[5] if len(sys.argv) > 5 else "quick"
old = old.encode().decode("unicode_escape"); new = new.encode().decode("unicode_escape")
p = os.path.join("/repo", rel)
s = open(p).read()
assert s.count(old) == 1, "pattern occurs %d times" % s.count(old)
open(p, "w").write(s.replace(old, new))
try:
    for i in ids.split(","):
        r = subprocess.run(["/verif/check", i, tier], capture_output=True, text=True)
        lines = [l for l in r.stdout.splitlines() if not l.startswith("KNOWN-FINDING")]
        print("[%s] rc=%d  %s" % (i, r.returncode, " | ".join(l[:160] for l in lines[-4:])))
        if r.returncode == 2:
            print(r.stderr[-800:])
finally:
    subprocess.run(["git", "-C", "/repo", "checkout", "--", rel])
    subprocess.run(["rm", "-rf", "/verif/replays/found"])
