"""C17  Scheduling laws: nothing syncs before it has aged; oldest eligible goes first; no starvation."""
from .. import shims  # noqa: F401  (must precede any cloudsync import)
from cloudsync import CloudSync
from cloudsync.types import LOCAL, REMOTE

from ..core import ok, violation, invalid
from ..gen import draw_cfg, gen_history, envelope_ok, FLAVOURS
from ..hist import HistoryRun, Stop
from ..engine import InvalidTrace, MUTATORS
from ..shims import CLOCK
from .. import oracles as O

ID = "C17"
LEVEL = "exploration"
RULE = ("main: Hypothesis-generated one-sided envelope histories with ageing in {0, 0.5, 2, 10} virtual seconds, a "
        "generated prioritize() (by leaf name, or by top-level folder so that a folder rename re-ranks its children: -1, 0, 1, 2) "
        "and explicit clock advances.  Oracle C: after an event-intake step every entry whose path changed in that step has "
        "the rank prioritize() gives to its NEW path.  Part urgent: a file ranked -1 is created (possibly inside folders new in "
        "the same batch) under a long ageing interval; it has to reach the other side before the sync loop ever goes idle "
        "(sleeps the ageing interval).  Oracle A (differential, every "
        "sync step): SyncState.change is wrapped, the virtual clock frozen for the call, and the returned entry compared "
        "with a reference choice computed on the same state and the same 'now': eligible = pending entries with "
        "priority < 0 or a change flag <= now - ageing; result is None iff none is eligible, otherwise it is in "
        "argmin (priority, latest change).  Oracle B (end-to-end): every engine-issued provider mutation that "
        "propagates an entry happens >= ageing after the last event notification for that object on the changed side "
        "unless the entry's priority is negative.  starve: one destination path fails for ever, k other files are "
        "created: all k are propagated within 20k+50 sync steps.  Non-trivial = ageing > 0 and >=1 sync step taken "
        "while some entry was pending but too young (main); k >= 2 (starve).")
ASSUMPTIONS = [
    "virtual clock (strictly increasing, 100 us per reading); mock providers; envelope hazards as for C03",
    "envelope without the id/id name-reuse / create-in-renamed-folder exceptions (they were established for FIFO processing only)",
    "RETOUCH_IN_WINDOW: within a window no op touches an object or folder created/written/renamed earlier in that window (open findings KF-37: parent folder propagated before its own ageing because a child needs it; KF-38: a fresh change propagated at once because the other side's echo flag has aged)",
    "PRIO_RMTREE: no rmtree when prioritize() assigns a positive priority to some name (open finding KF-39: the non-empty folder's delete is retried for ever and starves its low-priority child)",
    "the reference choice is computed inside the wrapped call, after the engine's own 'fill in missing paths' pass, on the very state the engine sorted",
]
AGINGS = (0, 0.5, 2, 10)
PRIOS = (-1, 0, 0, 1, 2)


def make_cs(prio, by_dir=False):
    class PrioCS(CloudSync):
        def prioritize(self, side, path):
            if by_dir:
                # the application ranks whole top-level folders: everything under /<root>/<x>/ gets the rank of x
                comps = path.split("/")[2:]
                return prio.get(comps[0], 0) if comps else 0
            return prio.get(path.rsplit("/", 1)[-1], 0)
    return PrioCS


def budget(tier):
    q = tier == "quick"
    return [{"workers": 16, "examples": 200 if q else 5000},
            {"part": "starve", "workers": 16, "examples": 25 if q else 800},
            {"part": "renotify", "workers": 16, "examples": 40 if q else 1500},
            {"part": "urgent", "workers": 16, "examples": 25 if q else 800}]


def gen(d, tier):
    cfg = draw_cfg(d)
    cfg["origin"] = d.int(0, 1)
    cfg["aging"] = d.choice(AGINGS)
    cfg["prio"] = {n: d.choice(PRIOS) for n in ("a", "b", "c", "d", "e")}
    if d.bool():
        cfg["prio_by_dir"] = True

    def extra(d, world, acts):
        acts.append(["clock", d.choice((0.1, 0.4, 1.0, 3.0, 11.0))])
    from ..gen import OP_KINDS
    kinds = OP_KINDS
    if max(cfg["prio"].values()) > 0:
        # hazard PRIO_RMTREE (open finding KF-39): a folder tree is not removed while prioritize() ranks some
        # names after their folder -- the folder's delete is retried for ever and starves the child's delete
        kinds = tuple((k, w) for k, w in OP_KINDS if k != "rmtree")
    acts, world = gen_history(d, cfg, sides=(cfg["origin"],), n_ops=(3, 8) if tier == "quick" else (3, 14),
                              w_extra=2, extra=extra, w_step=6, world_init=_strict, kinds=kinds)
    return {"cfg": cfg, "acts": acts, "meta": {"excluded": dict(world.excluded)}}


def _strict(world):
    # with ageing and priorities the engine processes entries in a different order; the id/id name-reuse and
    # create-in-renamed-folder exceptions of the envelope were only established for FIFO processing
    world.strict_reuse = True
    world.strict_dirmove = True
    # RETOUCH_IN_WINDOW (open findings KF-37, KF-38): no op touches an object (or a folder) that was created, written
    # or renamed earlier in the same window -- a parent folder jumps the queue for its child (set_aged), and a fresh
    # change rides on the aged echo flag of the other side
    world.guard_retouch = True


def in_domain(trace):
    if "/f" in [a[3] for a in trace["acts"] if a[0] == "u" and a[2] == "create"][:1] and "aging" in trace["cfg"] and "/g" in str(trace["acts"][:2]):
        return True         # 'renotify' scenarios are hand-shaped: any sub-sequence is in their domain
    if max(trace["cfg"].get("prio", {"x": 0}).values()) > 0 and any(a[0] == "u" and a[2] == "rmtree" for a in trace["acts"]):
        return False
    acts = [a for a in trace["acts"] if a[0] != "clock"]
    return envelope_ok(dict(trace, acts=acts), sides=(trace["cfg"]["origin"],), world_init=_strict)


class Run(HistoryRun):
    def __init__(self, trace):
        super().__init__(trace, case_kw={"cs_class": make_cs(trace["cfg"].get("prio", {}), trace["cfg"].get("prio_by_dir", False))})
        self.aging = trace["cfg"].get("aging", 0)
        self.too_young_steps = 0
        self.picks = 0
        self.notified = {}          # (side, oid) -> virtual time of the last event notification
        self.current = None         # entry being synced
        self.pick_priority = None
        self.cur_who = None
        self.err = None
        if self.case is not None:
            self._install()

    def _install(self):
        state = self.case.cs.state
        smgr = self.case.cs.smgr
        run = self
        orig_change = state.change
        orig_update = state.update
        orig_sync_one = smgr._sync_one_entry

        def change(age):
            CLOCK.frozen = True
            try:
                got = orig_change(age)
                now = CLOCK.t
                pend = list(state._changeset)
                elig = [e for e in pend if e.priority < 0 or
                        any(e[s].changed and e[s].changed <= now - age for s in (LOCAL, REMOTE))]
                young = [e for e in pend if e not in elig]
                if young and age > 0:
                    run.too_young_steps += 1
                if got is None:
                    if elig:
                        run.err = ("picks_eligible", "change(%r) returned None although %d pending entries are eligible, e.g. %s (now=%r)" % (age, len(elig), elig[0], now))
                else:
                    run.picks += 1
                    run.pick_priority = got.priority
                    key = lambda e: (e.priority, max(e[LOCAL].changed or 0, e[REMOTE].changed or 0))
                    if got not in elig:
                        run.err = ("nothing_before_aged", "change(%r) picked an entry that is not eligible yet: %s (now=%r, changed=%r/%r, priority=%r)" % (
                            age, got, now, got[LOCAL].changed, got[REMOTE].changed, got.priority))
                    elif key(got) != min(key(e) for e in elig):
                        best = min(elig, key=key)
                        run.err = ("oldest_lowest_priority_first", "change(%r) picked %s key=%r although %s key=%r is eligible" % (age, got, key(got), best, key(best)))
                return got
            finally:
                CLOCK.frozen = False

        def update(side, otype, oid, *a, **kw):
            if run.cur_who in ("EL", "ER"):         # a notification = an event handed over by an event manager
                run.notified[(side, oid)] = CLOCK.t   # (the sync manager also calls update() on its own account)
            return orig_update(side, otype, oid, *a, **kw)

        def sync_one(sync):
            run.current = sync
            try:
                return orig_sync_one(sync)
            finally:
                run.current = None

        state.change = change
        state.update = update
        smgr._sync_one_entry = sync_one
        self.case.fault_plan = self._on_call

    def _on_call(self, case, prov, rec, phase):
        # Oracle B, evaluated right before an engine-issued provider mutation takes effect
        if phase != "before" or rec["name"] not in MUTATORS or self.current is None or self.err:
            return None
        ent = self.current
        changed_side = 1 - rec["side"]
        oid = ent[changed_side].oid
        t = self.notified.get((changed_side, oid))
        if t is None or ent.priority < 0 or (self.pick_priority is not None and self.pick_priority < 0):
            return None         # 'immediately': judged by the priority the entry had when it was picked
        if CLOCK.t - t < self.aging - 1e-9:
            self.err = ("nothing_before_aged", "engine %s on side %d at t=%.4f propagates %s, last notified at t=%.4f (%.4f s ago, ageing %.2f, priority %r)" % (
                rec["name"], rec["side"], CLOCK.t, ent[changed_side].path, t, CLOCK.t - t, self.aging, ent.priority))
        return None

    def before_step(self, who):
        self.cur_who = who
        if who in ("EL", "ER"):
            sd = 0 if who == "EL" else 1
            self._paths_before = {e: e[sd].path for e in self.case.cs.state._oids[sd].values()}

    def _priority_follows_path(self, who):
        """Oracle C: an event-intake step that changes the path the engine holds for an object (rename event, or the
        re-pathing of the children of a renamed folder) leaves the entry with the rank the application's prioritize()
        gives to the NEW path (no punt and no 'finished' reset happens in an intake step)."""
        sd = 0 if who == "EL" else 1
        cs = self.case.cs
        for e in list(cs.state._oids[sd].values()):
            p = e[sd].path
            if p and e in self._paths_before and self._paths_before[e] != p and not e.is_discarded:
                want = cs.prioritize(sd, p)
                if e.priority != want:
                    old = self._paths_before[e]
                    return ("priority_follows_path", "after %s the entry for %s (was %s) has priority %r, prioritize() gives %r for its new path%s" % (
                        who, p, old, e.priority, want, " (and %r for the old one)" % cs.prioritize(sd, old) if old else ""))
        return None

    def special(self, act):
        if act[0] != "clock":
            raise InvalidTrace("unknown action %r" % (act,))
        CLOCK.sleep(act[1])

    def after_step(self, who):
        e = O.escaped(self.case)
        if e:
            raise Stop(violation("exception_escaped", e))
        if self.err:
            raise Stop(violation(self.err[0], "step %s: %s" % (who, self.err[1])))
        if who in ("EL", "ER"):
            c = self._priority_follows_path(who)
            if c:
                raise Stop(violation(c[0], c[1]))

    def at_quiet(self, rounds, final):
        if self.exp is None:
            return
        e = O.equals_expected(self.case, self.exp)
        if e:
            raise Stop(violation("still_mirrors", e))

    def finish(self):
        cfg = self.trace["cfg"]
        labs = ["aging:%s" % cfg.get("aging"), "flavour:%s/%s" % (cfg["L"], cfg["R"])]
        if any(v < 0 for v in cfg.get("prio", {}).values()):
            labs.append("has_negative_priority")
        if cfg.get("prio_by_dir"):
            labs.append("priority_by_top_folder")
        return ok(nontrivial=self.aging > 0 and self.too_young_steps > 0, labels=labs,
                  counters={"picks_compared": self.picks, "steps_with_too_young_entries": self.too_young_steps})


def run(trace):
    return Run(trace).execute()


# ----------------------------------------------------------------------------- 'immediately' part
def gen_urgent(d, tier):
    L, R = d.choice(FLAVOURS)
    origin = d.int(0, 1)
    aging = d.choice((2, 10, 100))
    cfg = {"L": L, "R": R, "salt": d.int(0, 7), "origin": origin, "aging": aging, "prio": {"u": -1}}
    acts = []
    if d.bool():
        acts += [["u", origin, "mkdir", "/old"], ["u", origin, "create", "/old/f", "f0"], ["settle"]]
    depth = d.int(0, 2)                 # new folders between the root (or /old) and the urgent file
    par = "/old" if (acts and d.bool()) else ""
    batch = []
    for i in range(depth):
        par = par + "/n%d" % i
        batch.append(["u", origin, "mkdir", par])
    batch.append(["u", origin, "create", par + "/u", "urgent"])
    for i in range(d.int(0, 2)):
        batch.insert(d.int(0, len(batch)) if False else len(batch), ["u", origin, "create", par + "/p%d" % i, "plain%d" % i])
    acts += batch
    return {"cfg": cfg, "acts": acts, "urgent": par + "/u", "rounds": d.int(25, 40)}


def run_urgent(trace):
    """A file the application ranks negative ('immediately') is created -- possibly inside folders that are new in the
    same batch -- with a long ageing interval; the engine loops run for a while with far less virtual time passing
    than the ageing interval: the urgent file has to be on the other side by then (its new parent folders with it),
    while plain files created with it still wait (oracles A and B of the main part stay armed)."""
    cfg = trace["cfg"]
    r = Run({"cfg": cfg, "acts": trace["acts"]})
    if r.crash:
        return violation("engine_construct", r.crash)
    case = r.case
    dest = 1 - cfg["origin"]
    try:
        for a in trace["acts"]:
            if a[0] == "u":
                r.do_user(a)
            elif a[0] == "settle":
                CLOCK.sleep(cfg["aging"] * 1.5)
                r.do_settle()
        got_at = None
        idle_at = None
        for i in range(trace["rounds"]):
            for who in ("EL", "ER", "S"):
                t_before = CLOCK.t
                r.do_step(who)
                # the sync loop sleeps the ageing interval when it finds nothing eligible: with a negative-priority
                # change pending (its event consumed in round 1) that must not happen before the change is through
                if who == "S" and i >= 1 and CLOCK.t - t_before >= cfg["aging"] and idle_at is None:
                    idle_at = i + 1
            if case.snap(dest).get(trace["urgent"]) is not None:
                got_at = i + 1
                break
            if idle_at is not None:
                break
        if got_at is None and idle_at is not None:
            return violation("negative_means_immediately", "%s (prioritize() = -1) was still not propagated when the sync loop went idle and slept the ageing interval (%s s) in round %d; other side holds %s" % (
                trace["urgent"], cfg["aging"], idle_at, sorted(case.snap(dest))))
        if got_at is None:
            return violation("negative_means_immediately", "%s (prioritize() = -1) was not propagated within %d rounds; other side holds %s" % (
                trace["urgent"], trace["rounds"], sorted(case.snap(dest))))
        return ok(nontrivial=True, labels=["urgent", "urgent_depth:%d" % sum(1 for a in trace["acts"] if a[0] == "u" and a[2] == "mkdir" and "/n" in a[3])])
    except Stop as s_:
        return s_.outcome
    finally:
        case.close()


# ----------------------------------------------------------------------------- starvation part
def gen_starve(d, tier):
    L, R = d.choice(FLAVOURS)
    origin = d.int(0, 1)
    k = d.int(1, 6)
    cfg = {"L": L, "R": R, "salt": d.int(0, 7), "origin": origin, "aging": d.choice((0, 0.5, 2)), "k": k,
           "prio": {"stuck": d.choice((0, 0, -1, 1))}}
    acts = [["u", origin, "create", "/stuck", "s0"]]
    order = list(range(k))
    for i in order:
        acts.insert(d.int(0, len(acts)), ["u", origin, "create", "/h%d" % i, "h%d" % i])
    return {"cfg": cfg, "acts": acts}


def run_starve(trace):
    cfg = trace["cfg"]
    r = HistoryRun({"cfg": cfg, "acts": []}, case_kw={"cs_class": make_cs(cfg.get("prio", {}))})
    if r.crash:
        return violation("engine_construct", r.crash)
    case = r.case
    try:
        origin = cfg["origin"]
        dest = 1 - origin
        case.prov[dest]._locked_for_test.add(case.abspath(dest, "/stuck"))
        for a in trace["acts"]:
            case.act(a)
        k = cfg["k"]
        bound = 20 * k + 50
        ssteps = 0
        done_at = None
        for _ in range(bound):
            for who in ("EL", "ER", "S"):
                case.step(who)
            ssteps += 1
            CLOCK.sleep(max(0.05, cfg.get("aging", 0)))
            got = case.snap(dest)
            if all(("/h%d" % i) in got for i in range(k)):
                done_at = ssteps
                break
        e = O.escaped(case)
        if e:
            return violation("exception_escaped", e)
        if done_at is None:
            missing = [i for i in range(k) if ("/h%d" % i) not in case.snap(dest)]
            return violation("no_starvation", "after %d sync steps with '/stuck' failing for ever, healthy files %s have still not been propagated" % (bound, missing))
        if "/stuck" in case.snap(dest):
            return invalid("stuck file was not stuck")
        return ok(nontrivial=k >= 2, labels=["starve", "k:%d" % k], counters={"sync_steps_needed": done_at})
    finally:
        case.close()


# ----------------------------------------------------------------------------- repeated notifications for one object
def gen_renotify(d, tier):
    """One settled file is overwritten k times with gaps shorter than the ageing interval, each overwrite is taken in
    by the event manager before the next; then the clock advances in small steps.  Oracle B (in Run) demands that
    nothing is propagated before (last notification + ageing)."""
    L, R = d.choice(FLAVOURS)
    origin = d.int(0, 1)
    aging = d.choice((0.5, 2, 10))
    cfg = {"L": L, "R": R, "salt": d.int(0, 7), "origin": origin, "aging": aging, "prio": {"f": d.choice((0, 0, 1))}}
    ev = "EL" if origin == 0 else "ER"
    acts = [["u", origin, "create", "/f", "w0"], ["u", origin, "create", "/g", "g0"], ["settle"], ["clock", aging * 3], ["settle"]]
    for i in range(d.int(2, 4)):
        acts.append(["u", origin, "write", "/f", "w%d" % (i + 1)])
        acts.append(["step", ev])
        if d.bool():
            acts.append(["step", "S"])
        acts.append(["clock", aging * d.choice((0.1, 0.3, 0.6, 0.9))])
        if d.bool():
            acts.append(["step", "S"])
    for _ in range(d.int(2, 8)):
        acts.append(["clock", aging * d.choice((0.05, 0.2, 0.5))])
        acts.append(["step", d.choice(("S", "S", "EL", "ER"))])
    acts.append(["settle"])
    return {"cfg": cfg, "acts": acts}


PARTS = {"starve": (gen_starve, run_starve), "renotify": (gen_renotify, run), "urgent": (gen_urgent, run_urgent)}
