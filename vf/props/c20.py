"""C20  On-demand sync: remote files stay remote until requested; unsync keeps remote."""
from .. import shims  # noqa: F401  (must precede any cloudsync import)
from cloudsync.smartsync import SmartCloudSync
import cloudsync.exceptions as ex

from ..core import ok, violation, invalid
from ..gen import FLAVOURS
from ..hist import HistoryRun, Stop
from ..engine import InvalidTrace, blob
from .. import oracles as O

ID = "C20"
LEVEL = "exploration"
RULE = ("Hypothesis-generated histories over SmartCloudSync (local id- or path-style, remote id-style, optional auto-sync "
        "predicate 'name contains auto'): remote users create/overwrite/delete files and make folders, local users "
        "create and edit files, the application requests files by path or by id, un-requests them by path or by id and "
        "lists folders; arbitrary interleaving with single EL/ER/S iterations; within a window every file is touched by "
        "one actor only.  Oracles: after every step every file present locally is a local creation, a requested (not "
        "un-requested) file or an auto-sync match; the engine downloads from the remote side only such files and never "
        "deletes anything remotely; at every quiet point folders are mirrored both ways, the remote tree is exactly what "
        "users made of it (local creations and edits uploaded, un-requested files still there with the newest bytes), the "
        "local tree is exactly folders + local creations + requested/auto files with the remote bytes, and the merged "
        "listing of every folder reports local files as synced and remote-only files as not synced.  Non-trivial = >=1 "
        "remote-only file that stays unrequested through >=1 sync step and >=1 request or un-request.")
ASSUMPTIONS = [
    "mock providers; remote side id-style (as in the upstream fixtures) in two thirds of the cases, path-style in the rest; no renames and no local deletes are generated (smart_rename / smart_delete_path are separate APIs outside the statement)",
    "requests and un-requests are issued for files the engine already knows (present at the last quiet point), from the application thread between engine steps",
    "within a window a file is touched by one actor only (no conflicts: C02/C05 cover those)",
]
FOLDERS = ("", "/f")
RNAMES = ("r1", "r2", "auto1", "r3")
LNAMES = ("l1", "l2")


def budget(tier):
    return {"workers": 16, "examples": 150 if tier == "quick" else 4000}


def gen(d, tier):
    cfg = {"L": d.choice(("id", "path")), "R": d.choice(("id", "id", "path")), "salt": d.int(0, 7), "auto": d.bool()}
    acts = [["u", 1, "mkdir", "/f"], ["u", 1, "create", "/r1", "v0a"], ["u", 1, "create", "/f/r2", "v0b"], ["settle"]]
    R, known, present, requested, lcreated = {"/r1": "v0a", "/f/r2": "v0b"}, {"/r1", "/f/r2"}, set(), set(), set()
    touched = set()
    nc = [0]

    def content():
        nc[0] += 1
        return "v%d" % nc[0]
    focus = d.choice(("/r1", "/f/r2"))        # locality: long request / un-request / edit stories about one file

    def pick(cands):
        if focus in cands and d.chance(2, 3):
            return focus
        return d.choice(cands)
    n = d.int(6, 14 if tier == "quick" else 24)
    for _ in range(n):
        k = d.weighted((("r_create", 4), ("r_write", 2), ("r_delete", 1), ("l_create", 2), ("l_write", 2),
                        ("request", 7), ("unrequest", 5), ("step", 4), ("settle", 5), ("listdir", 1), ("story", 2)))
        if k == "story":
            # a longer life of one file: request, un-request, request again, then an edit on either side
            p = focus
            if p in R and p not in lcreated and not touched:
                def quiet():
                    nonlocal known, touched, present
                    acts.append(["settle"])
                    known = set(R)
                    touched = set()
                    if cfg["auto"]:
                        present |= {q for q in R if "auto" in q}
                quiet()
                if p not in present:
                    acts.append(["request", p, d.choice(("path", "oid"))]); requested.add(p); present.add(p); quiet()
                if p in requested:
                    acts.append(["unrequest", p, d.choice(("path", "oid"))]); requested.discard(p); present.discard(p); quiet()
                    acts.append(["request", p, d.choice(("path", "oid"))]); requested.add(p); present.add(p); quiet()
                    R[p] = content()
                    acts.append(["u", d.int(0, 1), "write", p, R[p]])
                    quiet()
                if d.chance(1, 2) and p in R and p not in lcreated:
                    # ... and finally the remote owner un-requests it (if needed), deletes it and puts a new file of the
                    # same name there before the engine has looked: a new remote-only file, listed as not synced
                    if p in requested:
                        acts.append(["unrequest", p, d.choice(("path", "oid"))]); requested.discard(p); present.discard(p); quiet()
                    if p not in present:
                        acts.append(["u", 1, "delete", p])
                        R[p] = content()
                        acts.append(["u", 1, "create", p, R[p]])
                        quiet()
                        acts.append(["listdir", p.rpartition("/")[0]])
            continue
        if k == "r_create":
            cands = [f + "/" + nm for f in FOLDERS for nm in RNAMES if f + "/" + nm not in R and f + "/" + nm not in touched]
            if cands:
                p = d.choice(cands)
                R[p] = content()
                touched.add(p)
                acts.append(["u", 1, "create", p, R[p]])
        elif k == "r_write":
            cands = [p for p in sorted(R) if p not in touched and p in known]
            if cands:
                p = pick(cands)
                R[p] = content()
                touched.add(p)
                acts.append(["u", 1, "write", p, R[p]])
        elif k == "r_delete":
            cands = [p for p in sorted(R) if p not in touched and p in known and p not in lcreated]
            if cands:
                p = pick(cands)
                del R[p]
                touched.add(p)
                requested.discard(p)
                present.discard(p)
                acts.append(["u", 1, "delete", p])
        elif k == "l_create":
            cands = [f + "/" + nm for f in FOLDERS for nm in LNAMES if f + "/" + nm not in R and f + "/" + nm not in touched]
            if cands:
                p = d.choice(cands)
                R[p] = content()
                touched.add(p)
                lcreated.add(p)
                present.add(p)
                acts.append(["u", 0, "create", p, R[p]])
        elif k == "l_write":
            cands = [p for p in sorted(present) if p not in touched and p in known and p in R]
            if cands:
                p = pick(cands)
                R[p] = content()
                touched.add(p)
                acts.append(["u", 0, "write", p, R[p]])
        elif k == "request":
            cands = [p for p in sorted(R) if p in known and p not in present and p not in touched]
            if cands:
                p = pick(cands)
                requested.add(p)
                present.add(p)
                touched.add(p)
                acts.append(["request", p, d.choice(("path", "oid"))])
        elif k == "unrequest":
            cands = [p for p in sorted(requested) if p in known and p in present and p not in touched and p in R
                     and p not in lcreated]
            if cands:
                p = pick(cands)
                requested.discard(p)
                present.discard(p)
                touched.add(p)
                acts.append(["unrequest", p, d.choice(("path", "oid"))])
        elif k == "step":
            acts.append(["step", d.choice(("EL", "ER", "S"))])
        elif k == "settle":
            acts.append(["settle"])
            known = set(R)
            touched = set()
            if cfg["auto"]:
                present |= {p for p in R if "auto" in p}
        else:
            acts.append(["settle"])
            known = set(R)
            touched = set()
            if cfg["auto"]:
                present |= {p for p in R if "auto" in p}
            acts.append(["listdir", d.choice(FOLDERS)])
    acts.append(["settle"])
    acts.append(["listdir", ""])
    acts.append(["listdir", "/f"])
    return {"cfg": cfg, "acts": acts}


def in_domain(trace):
    """within a window every file is touched by one actor only; listings directly after a settle"""
    touched = set()
    prev = None
    prev_act = None
    for a in trace["acts"]:
        if a[0] == "settle":
            touched = set()
        elif a[0] == "u":
            if a[2] != "mkdir":
                recreate = a[2] == "create" and a[1] == 1 and prev_act is not None and prev_act[:4] == ["u", 1, "delete", a[3]]
                if a[3] in touched and not recreate:
                    return False
                touched.add(a[3])
        elif a[0] in ("request", "unrequest"):
            if a[1] in touched:
                return False
            touched.add(a[1])
        elif a[0] == "listdir" and prev not in ("settle", "listdir"):
            return False
        prev = a[0]
        prev_act = list(a)
    return True


class Run(HistoryRun):
    def __init__(self, trace):
        super().__init__(trace, case_kw={"cs_class": SmartCloudSync})
        self.R = {}                 # expected remote files: rel -> bytes
        self.dirs = set()
        self.allowed = set()        # files allowed to be present locally
        self.lingering = set()      # requested files deleted remotely: the local copy may linger until the next quiet point
        self.requested = set()
        self.lcreated = set()
        self.unrequested_at_step = {}
        self.remote_only_steps = 0
        self.reqs = 0
        self.listings = 0
        self.auto = bool(trace["cfg"].get("auto"))
        if self.case is not None and self.auto:
            self.case.cs.register_auto_sync_callback(lambda path: "auto" in path)

    def _is_allowed(self, p, strict=False):
        return p in self.allowed or (self.auto and "auto" in p) or (not strict and p in self.lingering)

    # ---- user ops: keep the model
    def do_user(self, act):
        side, op, args = act[1], act[2], act[3:]
        self._at_quiet = False
        self.case.user(side, op, *args)
        if op == "mkdir":
            self.dirs.add(args[0])
        elif op in ("create", "write"):
            self.R[args[0]] = blob(args[1])
            if side == 0 and op == "create":
                self.lcreated.add(args[0])
                self.allowed.add(args[0])
        elif op == "delete":
            self.R.pop(args[0], None)
            self.requested.discard(args[0])
            if args[0] in self.allowed:
                self.allowed.discard(args[0])    # a request is for that object; a later file of the same name is a new one
                self.lingering.add(args[0])      # ... but the old local copy may stay until the deletion has been synced
        else:
            raise InvalidTrace("op %s is not part of the C20 domain" % op)
        self.stats["user_ops"] += 1
        self._seen_op = True
        self._step_since_op = False

    def special(self, act):
        case = self.case
        cs = case.cs
        if act[0] in ("request", "unrequest"):
            self._at_quiet = False
            p, how = act[1], act[2]
            case.in_engine = True
            try:
                if act[0] == "request":
                    self.allowed.add(p)
                    self.requested.add(p)
                    if how == "path":
                        cs.smart_sync_path(case.abspath(0, p), 0)
                    else:
                        info = case.prov[1].info_path(case.abspath(1, p))
                        if info is None:
                            raise InvalidTrace("request by oid: remote file missing")
                        cs.smart_sync_oid(info.oid)
                else:
                    if how == "path":
                        cs.smart_unsync_path(case.abspath(0, p), 0)
                    else:
                        info = case.prov[1].info_path(case.abspath(1, p))
                        if info is None:
                            raise InvalidTrace("unrequest by oid: remote file missing")
                        cs.smart_unsync_oid(info.oid)
                    self.allowed.discard(p)
                    self.requested.discard(p)
                    if p not in case.snap(1):
                        raise Stop(violation("unsync_keeps_remote", "un-requesting %s removed the remote copy" % p))
                    if p in case.snap(0):
                        raise Stop(violation("unsync_removes_local", "after un-requesting %s the local copy is still there" % p))
            except ex.CloudFileNotFoundError as e:
                raise InvalidTrace("%s %s: %r" % (act[0], p, e))
            finally:
                case.in_engine = False
            case.drain_notes()
            self.reqs += 1
            self._check_safety("app call %s" % act[0])
        elif act[0] == "listdir":
            if not self._at_quiet:
                raise InvalidTrace("the merged listing is compared at quiet points only")
            self._check_listing(act[1])
        else:
            raise InvalidTrace("unknown action %r" % (act,))

    # ---- safety after every step
    def _check_safety(self, where):
        case = self.case
        L = case.snap(0)
        for p, v in L.items():
            if v is None:
                continue
            if not self._is_allowed(p):
                raise Stop(violation("remote_stays_remote", "%s: %s is present locally although it was neither created locally, nor requested, nor an auto-sync match" % (where, p)))
        for c in case.calls[self._calls_seen:]:
            if c["side"] == 1 and c["name"] == "delete" and not c["err"]:
                raise Stop(violation("never_deletes_remote", "%s: engine deleted %s on the remote side (no local user deleted anything)" % (where, c["path"])))
            if c["side"] == 1 and c["name"] == "download" and not c["err"]:
                rel = (c["path"] or "")[len(case.roots[1]):]
                if not self._is_allowed(rel) and rel not in self.lcreated:
                    raise Stop(violation("remote_stays_remote", "%s: engine downloaded %s which nobody requested" % (where, rel)))
        self._calls_seen = len(case.calls)

    _calls_seen = 0
    _at_quiet = False

    def after_step(self, who):
        e = O.escaped(self.case)
        if e:
            raise Stop(violation("exception_escaped", e))
        self._check_safety("step %s" % who)
        if who == "S":
            L = self.case.snap(0)
            if any(p not in L and not self._is_allowed(p) for p in self.case.snap(1) if self.case.snap(1)[p] is not None):
                self.remote_only_steps += 1

    def at_quiet(self, rounds, final):
        self._at_quiet = True
        case = self.case
        L, Rm = case.snap(0), case.snap(1)
        want_r = dict(self.R)
        for dname in self.dirs:
            want_r[dname] = None
        dd = O.diff_trees(want_r, Rm, "expected", "remote")
        if dd:
            raise Stop(violation("remote_exact", "remote tree: %s" % "; ".join(dd[:5])))
        self.lingering = set()
        want_l = {p: v for p, v in self.R.items() if self._is_allowed(p, strict=True)}
        for dname in self.dirs:
            want_l[dname] = None
        dd = O.diff_trees(want_l, L, "expected", "local")
        if dd:
            raise Stop(violation("local_exact", "local tree: %s" % "; ".join(dd[:5])))

    def _check_listing(self, folder):
        case = self.case
        case.in_engine = True
        try:
            got = list(case.cs.smart_listdir_path(case.abspath(0, folder)))
        finally:
            case.in_engine = False
        self.listings += 1
        L, Rm = case.snap(0), case.snap(1)
        pre = folder + "/"
        want = {}
        for p, v in Rm.items():
            if p.startswith(pre) and "/" not in p[len(pre):]:
                want[p[len(pre):]] = (p in L)
        for p, v in L.items():
            if p.startswith(pre) and "/" not in p[len(pre):]:
                want[p[len(pre):]] = True
        have = {}
        for si in got:
            if si.name in have:
                raise Stop(violation("listing", "listing of %r reports %r twice" % (folder, si.name)))
            have[si.name] = bool(si.is_synced)
        if have != want:
            raise Stop(violation("listing", "listing of %r = %r, expected name->is_synced %r" % (folder or "/", have, want)))

    def finish(self):
        cfg = self.trace["cfg"]
        labs = ["local:%s" % cfg["L"], "auto" if self.auto else "no_auto"]
        if self.reqs:
            labs.append("requests")
        return ok(nontrivial=self.remote_only_steps > 0 and self.reqs > 0, labels=labs,
                  counters={"listings_compared": self.listings, "app_requests": self.reqs})


def run(trace):
    return Run(trace).execute()
