"""Small automated mutation campaign (sensitivity measurement, not a registered check).
usage: mutcamp.py <n-mutants> <rng-seed> [file-filter]   -> appends one JSON line per mutant to /tmp/w/mutcamp.jsonl
For each sampled one-line mutant of the library: apply it in a scratch worktree of /repo's HEAD, make sure the module
still compiles, run the quick checks that could see it (VERIF_REPO) until one reports a VIOLATION, record the outcome.
Mutants are never applied in /repo.  Equivalent mutants are expected among the survivors: they are listed, not judged."""
import sys, os, re, json, random, subprocess, tempfile, py_compile

N = int(sys.argv[1]); SEED = int(sys.argv[2]); FILT = sys.argv[3] if len(sys.argv) > 3 else ""
ENGINE = ["C03", "C04", "C01", "C02", "C08", "C06", "C12", "C14", "C10", "C07", "C17", "C11", "C05", "C15", "C20"]
FILES = {
    "cloudsync/sync/manager.py": ENGINE,
    "cloudsync/sync/state.py": ENGINE,
    "cloudsync/event.py": ["C03", "C01", "C06", "C14", "C07", "C10", "C12", "C15", "C08"],
    "cloudsync/cs.py": ["C03", "C01", "C12", "C13", "C15"],
    "cloudsync/smartsync.py": ["C20", "C15"],
    "cloudsync/runnable.py": ["C18", "C03"],
    "cloudsync/hierarchical_cache.py": ["C19"],
    "cloudsync/sync/sqlite_storage.py": ["C09"],
    "cloudsync/provider.py": ["C13", "C16", "C12", "C03"],
    "cloudsync/providers/mock.py": ["C16"],
    "cloudsync/providers/filesystem.py": ["C16"],
}
OPS = [
    (r" == ", " != "), (r" != ", " == "), (r" and ", " or "), (r" or ", " and "), (r"\bnot ", ""),
    (r" < ", " <= "), (r" <= ", " < "), (r" > ", " >= "), (r" >= ", " > "),
    (r"\bTrue\b", "False"), (r"\bFalse\b", "True"), (r" is not None", " is None"), (r" is None", " is not None"),
    (r"\[LOCAL\]", "[REMOTE]"), (r"\[REMOTE\]", "[LOCAL]"), (r"\bchanged\b", "synced"), (r"\bsynced\b", "changed"),
    (r"\.sync_path\b", ".path"), (r"\.sync_hash\b", ".hash"), (r" \+ 1\b", " + 2"), (r" - 1\b", " + 1"),
]
DELETE = re.compile(r"^\s+(self\.[A-Za-z_\.]+\(.*\)|[a-z_\.\[\]A-Z]+\.(punt|clear|ignore|unignore|discard|add|pop|append)\(.*\)|[a-z_\[\]A-Z\.]+ = .+|continue|break|return.*)\s*$")
SKIP = re.compile(r"^\s*(#|log\.|assert|def |class |import |from |@|\"\"\"|raise |except|else|elif .*:$|try:|finally:|pass$)")


def sh(cmd):
    return subprocess.run(cmd, shell=True, capture_output=True, text=True)


def candidates():
    out = []
    for f in FILES:
        if FILT and FILT not in f:
            continue
        lines = open(os.path.join("/repo", f)).read().split("\n")
        indef = False
        for i, l in enumerate(lines):
            if re.match(r"\s+def ", l):
                indef = True
            if not indef or SKIP.match(l) or not l.strip() or "log." in l or "TRACE" in l:
                continue
            for pat, rep in OPS:
                for m in re.finditer(pat, l):
                    out.append((f, i, l[:m.start()] + re.sub(pat, rep, m.group(0), count=1) + l[m.end():], "%s -> %s" % (pat, rep)))
            if DELETE.match(l) and not l.strip().startswith(("return", "raise")):
                ind = l[:len(l) - len(l.lstrip())]
                out.append((f, i, ind + "pass", "delete statement"))
    return out


def main():
    rng = random.Random(SEED)
    cands = candidates()
    rng.shuffle(cands)
    done = 0
    logp = "/tmp/w/mutcamp.jsonl"
    for (f, i, newline, what) in cands:
        if done >= N:
            break
        wt = tempfile.mkdtemp(prefix="mutcamp-"); os.rmdir(wt)
        assert sh("git -C /repo worktree add -q --detach %s HEAD" % wt).returncode == 0
        rec = {"file": f, "line": i + 1, "op": what}
        try:
            p = os.path.join(wt, f)
            lines = open(p).read().split("\n")
            rec["old"], rec["new"] = lines[i].strip(), newline.strip()
            if lines[i] == newline:
                continue
            lines[i] = newline
            open(p, "w").write("\n".join(lines))
            try:
                py_compile.compile(p, doraise=True)
            except Exception:
                continue
            if sh("cd %s && /venv/bin/python -c 'import cloudsync, cloudsync.sync.manager, cloudsync.smartsync, cloudsync.providers.filesystem'" % wt).returncode:
                continue
            done += 1
            rec["killed_by"] = None
            rec["tried"] = []
            for c in FILES[f]:
                r = sh("VERIF_REPO=%s /verif/check %s quick" % (wt, c))
                rec["tried"].append([c, r.returncode])
                if r.returncode == 1 and "VIOLATION" in r.stdout:
                    rec["killed_by"] = c
                    rec["clause"] = [l for l in r.stdout.splitlines() if l.startswith("violated clause")][:1]
                    break
                if r.returncode == 2:
                    rec["killed_by"] = c + " (harness error: engine crashed?)"
                    rec["stderr"] = r.stderr[-300:]
                    break
            with open(logp, "a") as fo:
                fo.write(json.dumps(rec) + "\n")
            print(done, f, i + 1, what, "->", rec["killed_by"], flush=True)
        finally:
            sh("git -C /repo worktree remove --force %s" % wt)
            sh("rm -rf /verif/replays/found")


main()
