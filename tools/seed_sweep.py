"""Re-run every kept seeded change against the checks recorded as catching it (sensitivity regression).
usage: seed_sweep.py [name-substring] [tier]     -> one line per (seed, check); exits 1 if a recorded catch is now missed.
Each patch is applied in a scratch worktree of /repo's HEAD (VERIF_REPO), never in /repo itself."""
import sys, os, json, subprocess, tempfile
V = "/verif"
flt = sys.argv[1] if len(sys.argv) > 1 else ""
tier = sys.argv[2] if len(sys.argv) > 2 else "quick"
def sh(cmd):
    return subprocess.run(cmd, shell=True, capture_output=True, text=True)
missed = 0
for name in sorted(os.listdir(os.path.join(V, "seeded"))):
    d = os.path.join(V, "seeded", name)
    if flt not in name or not os.path.exists(os.path.join(d, "meta.json")):
        continue
    meta = json.load(open(os.path.join(d, "meta.json")))
    checks = [c for c, r in (meta.get("confirmed_by_main", {}).get("checks") or {}).items() if r.get("rc") == 1]
    checks = meta.get("caught_by", checks) or checks
    wt = tempfile.mkdtemp(prefix="sweep-"); os.rmdir(wt)
    assert sh("git -C /repo worktree add -q --detach %s HEAD" % wt).returncode == 0
    try:
        a = sh("git -C %s apply %s/patch.diff" % (wt, d))
        if a.returncode:
            a = sh("git -C %s apply --3way %s/patch.diff" % (wt, d))
        if a.returncode:
            print("%-50s PATCH DOES NOT APPLY: %s" % (name, a.stderr.strip()[:120])); missed += 1
            continue
        for c in checks:
            r = sh("VERIF_REPO=%s %s/check %s %s" % (wt, V, c, tier))
            caught = r.returncode == 1 and "VIOLATION" in r.stdout
            print("%-50s %s %s" % (name, c, "caught" if caught else "MISSED rc=%d" % r.returncode), flush=True)
            missed += not caught
    finally:
        sh("git -C /repo worktree remove --force %s" % wt)
        sh("rm -rf %s/replays/found" % V)
sys.exit(1 if missed else 0)
