"""C01  Two-way convergence: both sides identical once the engine goes quiet; quiet is reached in bounded steps."""
from ..core import ok, violation
from ..gen import draw_cfg, gen_history, envelope_ok, GADGET_SHAPES
from ..hist import HistoryRun, Stop
from .. import oracles as O

ID = "C01"
LEVEL = "exploration"
RULE = ("Hypothesis-generated two-sided histories: hazard-free background ops on both sides plus pure conflict gadgets "
        "from a 12-shape catalogue (create/create, edit/edit, edit/delete, delete/delete, rename/edit, rename/rename, "
        "create vs rename-onto, file-vs-folder, mkdir/mkdir, rmdir vs create-inside, folder-move vs create-inside), "
        "4 id/path flavours, arbitrary interleaving with single EL/ER/S iterations; oracle at every settle: quiet "
        "within 400 rounds and both roots equal modulo '.conflicted' names.  Non-trivial = >=2 user ops, both sides "
        "touched, >=1 engine step between two user ops, final trees non-empty; distinct = distinct trace digest.")
ASSUMPTIONS = [
    "mock providers (id- and path-style, case-sensitive) stand in for real accounts",
    "hazards exclude by construction: PATH_REUSE, DIRMOVE_ISOLATED, DIRMOVE_TOMB, XSIDE; overlap only through pure gadgets",
    "gadget shapes that are open known findings are not generated for the affected flavours (see known_findings.json)",
    "virtual clock; 'bounded number of steps' decided as quiet within 400 rounds",
]

# shapes dropped for flavours where they are open known findings (filled from triage; see known_findings.json)
DROPPED = {
    "*": ("create_rename_onto",),                       # KF-12
    ("path", "id"): ("dirmove_create_inside",),         # KF-14b
    ("id", "path"): ("dirmove_create_inside",),
    ("path", "path"): ("dirmove_create_inside",),
}


def shapes_for(cfg):
    import os
    if os.environ.get("VERIF_SHAPES") is not None:          # triage only; ./check unsets it
        return tuple(x for x in os.environ["VERIF_SHAPES"].split(",") if x)
    bad = DROPPED.get((cfg["L"], cfg["R"]), ()) + DROPPED.get("*", ())
    return tuple(s for s in GADGET_SHAPES if s not in bad)


def budget(tier):
    return {"workers": 16, "examples": 400 if tier == "quick" else 6000}


def gen(d, tier):
    cfg = draw_cfg(d, allow_ci=True)
    n_ops = (3, 9) if tier == "quick" else (3, 18)
    acts, world = gen_history(d, cfg, sides=(0, 1), n_ops=n_ops, sizes=False, w_op=5, w_gadget=2,
                              shapes=shapes_for(cfg))
    return {"cfg": cfg, "acts": acts, "meta": {"excluded": dict(world.excluded)}}


def in_domain(trace):
    return envelope_ok(trace)


class Run(HistoryRun):
    def after_step(self, who):
        e = O.escaped(self.case)
        if e:
            raise Stop(violation("exception_escaped", e))

    def at_quiet(self, rounds, final):
        e = O.converged(self.case)
        if e:
            raise Stop(violation("converged", e))

    def finish(self):
        st = self.stats
        cfg = self.trace["cfg"]
        labs = ["flavour:%s/%s" % (cfg["L"], cfg["R"])] + ["op:" + k for k in sorted(st["kinds"])]
        labs += ["gadget:" + g["shape"] for g in self.gadgets]
        if self.gadgets:
            labs.append("with_gadget")
        nonempty = bool(self.case.snap(0)) and bool(self.case.snap(1))
        nt = st["user_ops"] >= 2 and len(st["sides"]) == 2 and st["step_between_ops"] and nonempty
        return ok(nontrivial=nt, labels=labs)

    def execute(self):
        # finish() reads the providers: keep the case open until then
        return super().execute()


def run(trace):
    return Run(trace).execute()
