"""Run the pinned baseline command on /repo and compare with BASELINE.json stable_pass.
usage: baseline.py [extra-pass-list-file]  -> prints counts, exits 1 if a baseline test no longer passes"""
import json, subprocess, sys, os, tempfile, xml.etree.ElementTree as ET
base = set(json.load(open('/root/.vp/BASELINE.json'))['stable_pass'])
out = tempfile.mktemp(suffix=".xml")
subprocess.run("cd /repo && /venv/bin/python -m pytest -ra -q -p no:cacheprovider --timeout=900 --continue-on-collection-errors --junitxml=%s >/dev/null 2>&1" % out, shell=True)
passed = set()
for tc in ET.parse(out).iter('testcase'):
    if not any(c.tag in ('failure', 'error', 'skipped') for c in tc):
        passed.add(tc.get('classname') + '::' + tc.get('name'))
os.unlink(out)
missing = sorted(base - passed)
print(len(passed), "passed; baseline missing:", missing)
if len(sys.argv) > 1:
    if os.path.exists(sys.argv[1]):
        prev = set(open(sys.argv[1]).read().split("\n"))
        print("no longer passing vs", sys.argv[1], ":", sorted(prev - passed - {""}))
    else:
        open(sys.argv[1], "w").write("\n".join(sorted(passed)))
sys.exit(1 if missing else 0)
