"""Debug aid: replay a trace file step by step, printing trees and the engine's state table."""
import sys, json
sys.path.insert(0, "/verif")
from vf import shims
from vf.engine import Case
from vf.run import undump
import logging

def compact(acts):
    out = []
    for a in acts:
        if a[0] == "u":
            out.append("%s:%s %s" % ("LR"[a[1]], a[2], " ".join(map(str, a[3:]))))
        elif a[0] == "step":
            out.append(a[1])
        elif isinstance(a[0], str):
            out.append(a[0] + ("" if len(a) == 1 else str(a[1:])))
        else:
            out.append(str(a))
    return "; ".join(out)

if __name__ == "__main__":
    doc = undump(json.load(open(sys.argv[1])))
    tr = doc.get("trace", doc)
    verbose = "-v" in sys.argv
    print(tr["cfg"]); print(compact(tr["acts"]))
    c = Case(tr["cfg"])
    def dump():
        print("   L:", {k: (v if v is None else v[:8]) for k, v in sorted(c.snap(0).items())})
        print("   R:", {k: (v if v is None else v[:8]) for k, v in sorted(c.snap(1).items())})
        print(c.cs.state.pretty_print(use_sigs=False))
    for a in tr["acts"]:
        print(">>", a)
        if a[0] == "settle":
            for r in range(12):
                for who in ("EL", "ER", "S"):
                    n = len(c.calls)
                    c.step(who)
                    calls = [(x["side"], x["name"], x["path"], x["dst"], x["err"]) for x in c.calls[n:] if verbose or x["name"] in ("create","upload","rename","delete","mkdir")]
                    print("  ", who, calls)
                if c.quiet():
                    print("   quiet after", r + 1); break
            dump()
        else:
            n = len(c.calls)
            c.act(a)
            if a[0] == "step":
                print("  ", [(x["side"], x["name"], x["path"], x["dst"], x["err"]) for x in c.calls[n:]])
                dump()
    c.close()
