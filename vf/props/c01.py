"""C01  Two-way convergence: both sides identical once the engine goes quiet; quiet is reached in bounded steps."""
from ..core import ok, violation
from ..gen import draw_cfg, gen_history, envelope_ok, GADGET_SHAPES
from ..hist import HistoryRun, Stop
from .. import oracles as O

ID = "C01"
HANG_IS_VIOLATION = True      # "always reaches that quiet state in a bounded number of steps instead of looping"
LEVEL = "exploration"
RULE = ("Hypothesis-generated two-sided histories: hazard-free background ops on both sides plus pure conflict gadgets "
        "from a 12-shape catalogue (create/create, edit/edit, edit/delete, delete/delete, rename/edit, rename/rename, "
        "create vs rename-onto, file-vs-folder, mkdir/mkdir, rmdir vs create-inside, folder-move vs create-inside), "
        "4 id/path flavours, arbitrary interleaving with single EL/ER/S iterations; oracle at every settle: quiet "
        "within 400 rounds and both roots equal modulo '.conflicted' names.  Non-trivial = >=2 user ops, both sides "
        "touched, >=1 engine step between two user ops, final trees non-empty; distinct = distinct trace digest.")
ASSUMPTIONS = [
    "part deldel: both users delete the same file, then (before any sync step) one of them renames a folder above it; drawn schedules in which the other side's delete event arrives late; expected tree exact (folder renamed, common delete kept)",
    "mock providers (id- and path-style, case-sensitive) stand in for real accounts",
    "hazards exclude by construction: PATH_REUSE, DIRMOVE_ISOLATED, DIRMOVE_TOMB, XSIDE; overlap only through pure gadgets",
    "gadget shapes that are open known findings are not generated for the affected flavours (see known_findings.json)",
    "virtual clock; 'bounded number of steps' decided as quiet within 400 rounds",
]

# shapes dropped for flavours where they are open known findings (filled from triage; see known_findings.json)
DROPPED = {
    "*": ("create_rename_onto",),                       # KF-12
    ("path", "id"): ("dirmove_create_inside", "dirmove_rmtree"),         # KF-14b, KF-52
    ("id", "path"): ("dirmove_create_inside", "dirmove_rmtree"),
    ("path", "path"): ("dirmove_create_inside", "dirmove_rmtree"),
}


def shapes_for(cfg):
    import os
    if os.environ.get("VERIF_SHAPES") is not None:          # triage only; ./check unsets it
        return tuple(x for x in os.environ["VERIF_SHAPES"].split(",") if x)
    if cfg.get("ci"):
        return ()               # KF-46b: conflict gadgets under variant-cased folder names (case-insensitive cases)
    bad = DROPPED.get((cfg["L"], cfg["R"]), ()) + DROPPED.get("*", ())
    return tuple(s for s in GADGET_SHAPES if s not in bad)


def budget(tier):
    q = tier == "quick"
    return [{"workers": 16, "examples": 400 if q else 6000},
            {"part": "deldel", "workers": 16, "examples": 40 if q else 1500}]


def gen(d, tier):
    cfg = draw_cfg(d, allow_ci=True)
    n_ops = (3, 9) if tier == "quick" else (3, 18)
    acts, world = gen_history(d, cfg, sides=(0, 1), n_ops=n_ops, sizes=False, w_op=5, w_gadget=2,
                              shapes=shapes_for(cfg))
    return {"cfg": cfg, "acts": acts, "meta": {"excluded": dict(world.excluded)}}


def in_domain(trace):
    us = [a for a in trace["acts"] if a[0] == "u"]
    if any(a[3] == "/a/keep" for a in us):
        return (sum(1 for a in us if a[2] == "delete") == 2 and sum(1 for a in us if a[2] == "rename") == 1 and
                len(us) == 8 and trace["acts"][-1] == ["settle"] and sum(1 for a in trace["acts"] if a[0] == "settle") == 2)
    return envelope_ok(trace)


class Run(HistoryRun):
    def after_step(self, who):
        e = O.escaped(self.case)
        if e:
            raise Stop(violation("exception_escaped", e))

    def at_quiet(self, rounds, final):
        e = O.converged(self.case)
        if e:
            raise Stop(violation("converged", e))

    def finish(self):
        st = self.stats
        cfg = self.trace["cfg"]
        labs = ["flavour:%s/%s" % (cfg["L"], cfg["R"])] + ["op:" + k for k in sorted(st["kinds"])]
        labs += ["gadget:" + g["shape"] for g in self.gadgets]
        if self.gadgets:
            labs.append("with_gadget")
        nonempty = bool(self.case.snap(0)) and bool(self.case.snap(1))
        nt = st["user_ops"] >= 2 and len(st["sides"]) == 2 and st["step_between_ops"] and nonempty
        return ok(nontrivial=nt, labels=labs)

    def execute(self):
        # finish() reads the providers: keep the case open until then
        return super().execute()


def run(trace):
    return Run(trace).execute()


# ----------------------------------------------------------------------------- part: both sides delete, then a parent moves
# Both users delete the same file (nothing to fight about: it is gone on both sides); then, before the engine has done
# any sync step, one of them renames a folder above it.  The merged outcome is well defined -- the folder under its
# new name with its remaining children -- and the schedule decides how much the engine knows when: in particular the
# other side's delete event may arrive long after the engine has worked on the renaming side's events.
def gen_deldel(d, tier):
    from ..gen import FLAVOURS
    L, R = d.choice(FLAVOURS)
    cfg = {"L": L, "R": R, "salt": d.int(0, 7)}
    a = d.int(0, 1)                         # renames the folder
    b = 1 - a
    deep = d.bool()
    victim = "/a/sub/f" if deep else "/a/f"
    base = [["u", b, "mkdir", "/a"], ["u", b, "mkdir", "/a/sub"], ["u", b, "create", "/a/keep", "k0"],
            ["u", b, "create", "/a/sub/deep", "d0"], ["u", b, "create", victim, "v0"], ["settle"]]
    acts = list(base)
    first = d.int(0, 1)
    acts.append(["u", first, "delete", victim])
    for _ in range(d.int(0, 2)):
        acts.append(["step", d.choice(("EL", "ER"))])
    acts.append(["u", 1 - first, "delete", victim])
    for _ in range(d.int(0, 2)):
        acts.append(["step", d.choice(("EL", "ER"))])
    folder = d.choice(("/a", "/a/sub")) if deep else "/a"
    acts.append(["u", a, "rename", folder, "/b" if folder == "/a" else "/a/sub2"])
    starve = "ER" if a == 0 else "EL"       # the other side's intake
    mine = "EL" if a == 0 else "ER"
    for _ in range(d.int(0, 12)):
        who = d.choice((mine, "S", "S", starve) if d.chance(1, 4) else (mine, "S", "S"))
        acts.append(["step", who, 0.02] if d.bool() else ["step", who])
    acts.append(["settle"])
    return {"cfg": cfg, "acts": acts}


class DelDelRun(Run):
    def at_quiet(self, rounds, final):
        super().at_quiet(rounds, final)
        if not final:
            return
        from ..model import Tree
        t = Tree()
        seen = set()
        for a in self.trace["acts"]:
            if a[0] != "u":
                continue
            key = (a[2], a[3])
            if a[2] == "delete" and key in seen:
                continue                    # the second user's delete of the same file
            seen.add(key)
            t.apply(*a[2:])
        e = O.equals_expected(self.case, t)
        if e:
            raise Stop(violation("converged", "[expected: folder renamed, common delete kept] " + e))


def run_deldel(trace):
    us = [a for a in trace["acts"] if a[0] == "u"]
    if sum(1 for a in us if a[2] == "delete") != 2 or sum(1 for a in us if a[2] == "rename") != 1 or trace["acts"][-1] != ["settle"]:
        from ..core import invalid
        return invalid("not a delete/delete + parent rename scenario")
    out = DelDelRun(trace).execute()
    if out["status"] == "ok":
        out["nontrivial"] = True
        out["labels"] = ["deldel_then_parent_rename", "flavour:%s/%s" % (trace["cfg"]["L"], trace["cfg"]["R"])]
    return out


PARTS = {"deldel": (gen_deldel, run_deldel)}
